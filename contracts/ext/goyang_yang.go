//go:build verif_spec_only

// Contracts on dependency functions of goyang (module cache, pinned by /repo/go.sum). They are verified
// against the module-cache source on every run, not assumed. Integer-only (FractionDigits == 0).
package yang

//@ import package "github.com/openconfig/goyang/pkg/yang"

//@ property C06
//@ spec func num(n Number) int = n.Negative ? -int(n.Value) : int(n.Value)
//@ spec pred intNum(n Number) = n.FractionDigits == 0 && !(n.Negative && n.Value == 0)
//@ spec func P10(e uint8) int = e == 0 ? 1 : (e == 1 ? 10 : (e == 2 ? 100 : (e == 3 ? 1000 : (e == 4 ? 10000 : (e == 5 ? 100000 :
//@     (e == 6 ? 1000000 : (e == 7 ? 10000000 : (e == 8 ? 100000000 : (e == 9 ? 1000000000 : (e == 10 ? 10000000000 :
//@     (e == 11 ? 100000000000 : (e == 12 ? 1000000000000 : (e == 13 ? 10000000000000 : (e == 14 ? 100000000000000 :
//@     (e == 15 ? 1000000000000000 : (e == 16 ? 10000000000000000 : (e == 17 ? 100000000000000000 :
//@     (e == 18 ? 1000000000000000000 : 0))))))))))))))))))

//@ func pow10
//@ requires e <= 18
//@ ensures  int(result) == P10(e)
//@ loop 0 invariant i <= e && int(out) == P10(i)

//@ func (Number).Trunc
//@ requires n.FractionDigits == 0
//@ ensures  result == n.Value

//@ func (Number).frac
//@ requires n.FractionDigits == 0
//@ ensures  result == 0

//@ func (Number).Less
//@ requires intNum(n) && intNum(m)
//@ ensures  result == (num(n) < num(m))

//@ func (Number).Equal
//@ requires intNum(n) && intNum(m)
//@ ensures  result == (num(n) == num(m))

//@ func FromInt
//@ ensures  num(result) == int(i) && intNum(result)

//@ func FromUint
//@ ensures  num(result) == int(i) && intNum(result) && !result.Negative
