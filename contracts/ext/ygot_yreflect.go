//go:build verif_spec_only

// Contracts on functions of /repo/internal/yreflect used by kernels of other packages. These are reflection
// walkers (MethodByName / Call): they are not verified, only declared side-effect-free functions of their
// arguments (assumption listed in the evidence).
package yreflect

//@ import package "github.com/openconfig/ygot/internal/yreflect"

//@ func OrderedMapKeys
//@ pure

// MethodByName wraps reflect's method lookup (valid-and-non-zero check): a function of the value and the name.
//@ func MethodByName
//@ pure

// OrderedMapElementType / OrderedMapKeyType return a parameter type of the ordered map's Append / Get method
// (reflect's Type.In never returns nil); on error no type is returned.
//@ func OrderedMapElementType
//@ assumed
//@ ensures (result1 == nil) == (result0 != nil)
//@ modifies nothing
//@ func OrderedMapKeyType
//@ assumed
//@ ensures (result1 == nil) == (result0 != nil)
//@ modifies nothing
