//go:build verif_spec_only

// protoreflect.Value accessors used by protomap: side-effect-free functions of the Value (assumption).
package protoreflect

//@ import package "google.golang.org/protobuf/reflect/protoreflect"

//@ func (Value).Message
//@ pure
//@ func (Value).Interface
//@ pure
