//go:build verif_spec_only

// Assumed contracts for github.com/derekparker/trie (module cache; not verified): a trie is a set of keys.
// The verified callers use a single trie per call, so its key set is one ghost set.
package trie

//@ import package "github.com/derekparker/trie"

//@ ghost V_TrieKeys V_Set[string]

//@ func New
//@ assumed
//@ ensures result != nil && forall s string :: !in(s, V_TrieKeys)
//@ modifies ghost(V_TrieKeys)

//@ func (*Trie).Add
//@ assumed
//@ ensures forall s string :: in(s, V_TrieKeys) == (old(in(s, V_TrieKeys)) || s == key)
//@ modifies ghost(V_TrieKeys)

//@ func (Trie).PrefixSearch
//@ assumed
//@ ensures forall j int :: 0 <= j && j < len(result) ==> in(result[j], V_TrieKeys) && hasPrefix(result[j], pre)
//@ ensures forall s string :: in(s, V_TrieKeys) && hasPrefix(s, pre) ==> in(s, result)
//@ modifies nothing
