#!/bin/bash
# selftest/run.sh [prop ...]  - applies every must-fail / must-pass patch to a scratch copy of /repo and
# checks that the property check reports (exit 1) resp. accepts (exit 0). Exit 0 iff all expectations hold.
cd "$(dirname "$0")/.."
export GOFLAGS=-mod=mod GOPROXY=off GOSUMDB=off GOTOOLCHAIN=local
props="$@"; [ -z "$props" ] && props=$(ls selftest | grep '^C[0-9]')
bad=0
for p in $props; do
  for patch in selftest/$p/*${SELFTEST_FILTER:-}*.patch; do
    [ -f "$patch" ] || continue
    name=$(basename "$patch" .patch)
    tmp=$(mktemp -d /tmp/verif-selftest.XXXXXX)
    mkdir -p "$tmp/verif"; cp KNOWN_FINDINGS.txt "$tmp/verif/" 2>/dev/null
    [ -d contracts ] && cp -r contracts "$tmp/verif/"
    [ -d schemas ] && cp -r schemas "$tmp/verif/"
    rsync -a --exclude .git /repo/ "$tmp/repo/"
    if ! (cd "$tmp/repo" && patch -s -p1 < "$OLDPWD/$patch"); then echo "SELFTEST-ERROR $p/$name: patch does not apply"; bad=1; rm -rf "$tmp"; continue; fi
    genonly=""; case "$p" in C15|C34|C33) genonly="${SELFTEST_GEN_ONLY:-vlists}";; C29) genonly="${SELFTEST_GEN_ONLY:-ctestschema}";; C17) genonly="${SELFTEST_GEN_ONLY:-venums,vneg}";; esac   # generated-code properties: one corpus schema is enough to exercise a template
    # must-fail cases only need some obligation to fail: a short solver timeout and replay budget keep them quick
    # (a shorter timeout can only add failures); must-pass cases run with the check's own settings
    tmo=30; budget="${VERIF_FAIL_BUDGET_S:-}"; case "$name" in mustfail-*) tmo=8; budget="${VERIF_FAIL_BUDGET_S:-20}";; esac
    out=$(VERIF_FAIL_BUDGET_S="$budget" VERIF_GEN_ONLY="$genonly" bin/govc check -prop "$p" -timeout "$tmo" -repo "$tmp/repo" -verif "$tmp/verif" 2>&1); code=$?
    case "$name" in
      mustfail-*) want=1;;
      mustpass-*) want=0;;
      *) want=1;;
    esac
    if [ "$code" = "$want" ]; then
      echo "selftest ok   $p/$name (exit $code) $(echo "$out" | grep -c '^VIOLATION') violation line(s), $(echo "$out" | grep '^VIOLATION' | grep -vc no-failing-input-found) with failing input"
    else
      echo "SELFTEST-FAIL $p/$name: exit $code, wanted $want"; echo "$out" | tail -5; bad=1
    fi
    rm -rf "$tmp"
  done
done
exit $bad
