#!/usr/bin/env python3
"""mkpatch.py <prop> <name> <file-relative-to-repo> <old> <new> [count]
Creates selftest/<prop>/<name>.patch replacing the first occurrence (or the count-th) of <old> by <new>.
Name must start with mustfail- or mustpass-."""
import sys, subprocess, os, tempfile
prop, name, rel, old, new = sys.argv[1:6]
nth = int(sys.argv[6]) if len(sys.argv) > 6 else 1
src = open(os.path.join('/repo', rel)).read()
idx = -1
for _ in range(nth):
    idx = src.find(old, idx + 1)
    if idx < 0:
        sys.exit(f"pattern not found: {old!r}")
out = src[:idx] + new + src[idx + len(old):]
d = tempfile.mkdtemp()
a = os.path.join(d, 'a', rel); b = os.path.join(d, 'b', rel)
os.makedirs(os.path.dirname(a)); os.makedirs(os.path.dirname(b))
open(a, 'w').write(src); open(b, 'w').write(out)
p = subprocess.run(['diff', '-u', os.path.join('a', rel), os.path.join('b', rel)], cwd=d, capture_output=True, text=True).stdout
os.makedirs(f'/verif/selftest/{prop}', exist_ok=True)
open(f'/verif/selftest/{prop}/{name}.patch', 'w').write(p)
subprocess.run(['rm', '-rf', d])
print(f'/verif/selftest/{prop}/{name}.patch', len(p.splitlines()), 'lines')
