package ytypes

import (
	"testing"

	"github.com/openconfig/goyang/pkg/yang"
)

type c20InstIDParent struct {
	Ref interface{} `path:"ref"`
}

func (*c20InstIDParent) IsYANGGoStruct() {}

// An instance-identifier leaf (generated as an interface{} field): any JSON value for it makes
// Unmarshal panic while it builds the "wrong JSON type" error.
func TestVerifC20InstanceIdentifierJSON(t *testing.T) {
	leaf := &yang.Entry{Name: "ref", Kind: yang.LeafEntry, Type: &yang.YangType{Kind: yang.YinstanceIdentifier}}
	cont := &yang.Entry{Name: "parent", Kind: yang.DirectoryEntry, Dir: map[string]*yang.Entry{"ref": leaf}}
	leaf.Parent = cont
	defer func() {
		if r := recover(); r != nil {
			t.Fatalf("Unmarshal panicked: %v", r)
		}
	}()
	err := Unmarshal(cont, &c20InstIDParent{}, map[string]interface{}{"ref": "/a/b"})
	t.Logf("Unmarshal returned: %v", err)
	if err == nil {
		t.Logf("accepted")
	}
}
