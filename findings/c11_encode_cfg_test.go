package ygot

// Demonstration for property C11 (run with: go test -overlay, see /verif/findings/README.md):
// EncodeTypedValue with JSON_IETF must not modify the caller's RFC7951JSONConfig.

import (
	"testing"

	gnmipb "github.com/openconfig/gnmi/proto/gnmi"
)

type verifC11Struct struct {
	A *string `path:"a" module:"m"`
}

func (*verifC11Struct) IsYANGGoStruct() {}

func TestVerifC11EncodeCfg(t *testing.T) {
	s := "x"
	cfg := &RFC7951JSONConfig{}
	if _, err := EncodeTypedValue(&verifC11Struct{A: &s}, gnmipb.Encoding_JSON_IETF, cfg); err != nil {
		t.Fatalf("unexpected error: %v", err)
	}
	if cfg.AppendModuleName {
		t.Fatalf("EncodeTypedValue modified the caller's config: AppendModuleName is now true")
	}
}
