package ytypes

import (
	"testing"

	gpb "github.com/openconfig/gnmi/proto/gnmi"
	"github.com/openconfig/goyang/pkg/yang"
)

type c20SetRoot struct {
	C *c20SetChild `path:"c"`
}

func (*c20SetRoot) IsYANGGoStruct() {}

type c20SetChild struct {
	L *string `path:"l"`
}

func (*c20SetChild) IsYANGGoStruct() {}

// SetNode with a value that is not a *gnmi.TypedValue, on a path that ends at a container: the non-leaf branch
// of retrieveNode type-asserts the value without a check (the leaf branch checks first).
func TestVerifC20SetNodeContainerGoValue(t *testing.T) {
	leaf := &yang.Entry{Name: "l", Kind: yang.LeafEntry, Type: &yang.YangType{Kind: yang.Ystring}}
	child := &yang.Entry{Name: "c", Kind: yang.DirectoryEntry, Dir: map[string]*yang.Entry{"l": leaf}}
	leaf.Parent = child
	root := &yang.Entry{Name: "root", Kind: yang.DirectoryEntry, Dir: map[string]*yang.Entry{"c": child}}
	child.Parent = root
	defer func() {
		if r := recover(); r != nil {
			t.Fatalf("SetNode panicked: %v", r)
		}
	}()
	err := SetNode(root, &c20SetRoot{}, &gpb.Path{Elem: []*gpb.PathElem{{Name: "c"}}}, "a Go value", &InitMissingElements{})
	if err == nil {
		t.Fatalf("SetNode accepted a string for a container")
	}
	t.Logf("SetNode returned: %v", err)
}
