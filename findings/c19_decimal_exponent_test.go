package ygot

// Demonstration for property C19 (place in /repo/ygot/): before fix 6eb6c13c writeIETFScalarJSON(0.00001) returned
// "1e-05", which is not an RFC 7950 decimal64 lexical value (input found by the replay's small-scope sweep).

import "testing"

func TestVerifC19DecimalExponent(t *testing.T) {
	if got := writeIETFScalarJSON(float64(0.00001)); got != "0.00001" {
		t.Fatalf("writeIETFScalarJSON(0.00001) = %#v; want \"0.00001\"", got)
	}
}
