package protogen
import "testing"
func TestVerifC28Zero(t *testing.T) {
	v, err := fieldTag("/m/c/l225600320")
	t.Logf("fieldTag = %d, %v", v, err)
	if v == 0 { t.Fatalf("field number 0 returned") }
}
