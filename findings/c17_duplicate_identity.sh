#!/bin/bash
# Demonstration of the recorded C17 finding: two identities named A, defined in different modules and derived from
# the same base, make the generator emit a value table with the name "A" twice (both with the defining module of the
# identity seen last) and two Go constants of the same name. Exit 0 = defect present, 1 = not reproduced.
set -u
export GOFLAGS=-mod=mod GOPROXY=off GOSUMDB=off GOTOOLCHAIN=local
V="$(cd "$(dirname "$0")/.." && pwd)"
tmp=$(mktemp -d); trap 'rm -rf "$tmp"' EXIT
(cd "${VERIF_REPO:-/repo}" && go build -o "$tmp/generator" ./generator) || exit 2
"$tmp/generator" -path="$V/schemas" -output_file="$tmp/out.go" -package_name=venumsdup -generate_fakeroot -fakeroot_name=device \
  -generate_simple_unions -typedef_enum_with_defmod "$V/schemas/venums.yang" "$V/schemas/venums-ext.yang" "$V/schemas/venums-aug.yang" "$V/schemas/venums-dup.yang" || exit 2
echo "--- generated table of E_Venums_BASE:"
sed -n '/"E_Venums_BASE": {/,/^\t},/p' "$tmp/out.go"
echo "--- generated constants named Venums_BASE_A:"
grep -n 'Venums_BASE_A E_Venums_BASE' "$tmp/out.go"
n=$(sed -n '/"E_Venums_BASE": {/,/^\t},/p' "$tmp/out.go" | grep -c 'Name: "A"')
[ "$n" -ge 2 ] && { echo "DEFECT PRESENT: name \"A\" appears $n times in one identityref table"; exit 0; }
echo "not reproduced"; exit 1
