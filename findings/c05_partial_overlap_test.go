package schemaops_test

// Demonstration for property C05 (place in /repo/integration_tests/schemaops/, see /verif/findings/README.md):
// MergeStructs must reject an ordered list whose keys partly overlap the destination's without being a subset.
// Before fix dcf9a988 the merge below succeeded (keys [a x]).

import (
	"testing"

	"github.com/openconfig/ygot/integration_tests/schemaops/ctestschema"
	"github.com/openconfig/ygot/ygot"
)

func TestVerifC05PartialOverlap(t *testing.T) {
	dst := &ctestschema.Device{}
	dst.AppendNewOrderedList("a")
	src := &ctestschema.Device{}
	src.AppendNewOrderedList("x")
	src.AppendNewOrderedList("a")
	if got, err := ygot.MergeStructs(dst, src); err == nil {
		t.Fatalf("MergeStructs(dst keys [a], src keys [x a]) succeeded with keys %v; want an error (partial overlap, not a same-order subset)",
			got.(*ctestschema.Device).OrderedList.Keys())
	}
}
