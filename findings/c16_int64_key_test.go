package ygot

// Demonstration for property C16 (place in /repo/ygot/): before fix ae8a2f08 KeyValueAsString(int64(13)) returned
// "cannot convert type int64 to a string for use in a key" (input taken from the solver's model).

import "testing"

func TestVerifC16Int64Key(t *testing.T) {
	got, err := KeyValueAsString(int64(13))
	if err != nil || got != "13" {
		t.Fatalf("KeyValueAsString(int64(13)) = %q, %v; want \"13\", nil", got, err)
	}
}
