package ytypes

// Demonstration for property C20: UnmarshalSetRequest with the BestEffortUnmarshal option must return an
// error, not panic, when a path's origin conflicts with the prefix's origin.

import (
	"testing"

	gpb "github.com/openconfig/gnmi/proto/gnmi"
	"github.com/openconfig/goyang/pkg/yang"
)

type verifC20Root struct {
	A *string `path:"a"`
}

func (*verifC20Root) IsYANGGoStruct() {}

func TestVerifC20BestEffortJoinError(t *testing.T) {
	schema := &Schema{
		Root: &verifC20Root{},
		SchemaTree: map[string]*yang.Entry{
			"verifC20Root": {Name: "root", Kind: yang.DirectoryEntry, Dir: map[string]*yang.Entry{}},
		},
	}
	req := &gpb.SetRequest{
		Prefix: &gpb.Path{Origin: "openconfig"},
		Delete: []*gpb.Path{{Origin: "other", Elem: []*gpb.PathElem{{Name: "a"}}}},
	}
	defer func() {
		if r := recover(); r != nil {
			t.Fatalf("UnmarshalSetRequest panicked: %v", r)
		}
	}()
	if err := UnmarshalSetRequest(schema, req, &BestEffortUnmarshal{}); err == nil {
		t.Fatalf("expected an error for conflicting origins")
	}
}
