package main

import (
	"go/ast"
	"go/token"
	"go/types"
)

// Immutable literal globals: a package-level variable that is initialised with a composite literal and never
// assigned anywhere in its package (the generated ΛEnum / ΛEnumTypes tables) has, in every state, the value of
// its initialiser. When a function under verification mentions such a variable, the literal is evaluated into the
// entry heap, so that contracts can state facts about the table that the solver derives from the generated text.

type pkgGlobals struct {
	init     map[types.Object]ast.Expr
	assigned map[types.Object]bool
}

func (e *Engine) globalsOf(p *Pkg) *pkgGlobals {
	if e.globals == nil {
		e.globals = map[*Pkg]*pkgGlobals{}
	}
	if g, ok := e.globals[p]; ok {
		return g
	}
	g := &pkgGlobals{init: map[types.Object]ast.Expr{}, assigned: map[types.Object]bool{}}
	for _, f := range p.Files {
		for _, d := range f.Decls {
			gd, ok := d.(*ast.GenDecl)
			if !ok || gd.Tok != token.VAR {
				continue
			}
			for _, sp := range gd.Specs {
				vs := sp.(*ast.ValueSpec)
				if len(vs.Values) != len(vs.Names) {
					continue
				}
				for i, nm := range vs.Names {
					if obj := p.Info.Defs[nm]; obj != nil {
						if cl, ok := unparen(vs.Values[i]).(*ast.CompositeLit); ok {
							g.init[obj] = cl
						}
					}
				}
			}
		}
		ast.Inspect(f, func(n ast.Node) bool {
			mark := func(e ast.Expr) {
				for {
					switch x := e.(type) {
					case *ast.ParenExpr:
						e = x.X
						continue
					case *ast.SelectorExpr:
						e = x.X
						continue
					case *ast.IndexExpr:
						e = x.X
						continue
					case *ast.StarExpr:
						e = x.X
						continue
					case *ast.Ident:
						if o := p.Info.Uses[x]; o != nil {
							g.assigned[o] = true
						}
					}
					return
				}
			}
			switch x := n.(type) {
			case *ast.AssignStmt:
				for _, l := range x.Lhs {
					mark(l)
				}
			case *ast.IncDecStmt:
				mark(x.X)
			case *ast.UnaryExpr:
				if x.Op == token.AND {
					mark(x.X) // address taken: may be written through the pointer
				}
			case *ast.CallExpr:
				// delete(m, k) on the global
				if id, ok := unparen(x.Fun).(*ast.Ident); ok && id.Name == "delete" && len(x.Args) > 0 {
					mark(x.Args[0])
				}
			}
			return true
		})
	}
	e.globals[p] = g
	return g
}

// initLiteralGlobals evaluates, into st, the initialisers of the immutable literal globals the function mentions.
func (c *FnCtx) initLiteralGlobals(st *State, fd *ast.FuncDecl) {
	p := c.pkg
	g := c.eng.globalsOf(p)
	if len(g.init) == 0 || fd.Body == nil {
		return
	}
	seen := map[types.Object]bool{}
	var order []types.Object
	scan := func(root ast.Node) {
		ast.Inspect(root, func(n ast.Node) bool {
			if id, ok := n.(*ast.Ident); ok {
				if o := p.Info.Uses[id]; o != nil && g.init[o] != nil && !g.assigned[o] && !seen[o] {
					seen[o] = true
					order = append(order, o)
				}
			}
			return true
		})
	}
	scan(fd.Body)
	// the contract's clauses may mention such a table too (a postcondition that reads ΛEnum)
	if c.con != nil {
		var cls []*Clause
		cls = append(append(cls, c.con.Requires...), c.con.Ensures...)
		for _, l := range c.con.Loops {
			cls = append(cls, l...)
		}
		for _, cl := range cls {
			if cl.GoFn != "" {
				if sd := c.synthDecl(cl.GoFn, p); sd != nil && sd.Body != nil {
					scan(sd.Body)
				}
			}
		}
	}
	for _, o := range order {
		v := o.(*types.Var)
		lit := g.init[o].(*ast.CompositeLit)
		if countLitNodes(lit) > 4000 {
			continue // too large to be worth inlining; the variable stays an unconstrained heap global
		}
		term := c.evalComposite(lit, st)
		base := "G!" + v.Pkg().Name() + "." + v.Name()
		c.setH(st, base, c.tt.sortOf(v.Type()), term)
		c.abstractions["literal-global:"+v.Name()+" (initialiser evaluated; never assigned in its package)"] = true
	}
}

func countLitNodes(n ast.Node) int {
	k := 0
	ast.Inspect(n, func(ast.Node) bool { k++; return true })
	return k
}
