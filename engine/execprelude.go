package main

import (
	"fmt"
	"go/types"
	"strings"
)

// Executable reading of the specification builtins, used only by replays: the synthetic file that holds the
// contract clauses as Go functions is compiled into the replay test with this prelude instead of the
// type-checking stubs, so that a postcondition clause can be *evaluated* on the real function's inputs and
// outputs. Builtins that have no executable meaning here (quantifiers, old(), allocation predicates, ghost
// state, real arithmetic) panic; the replay then falls back to comparing the real results with the model's.
const execPrelude = `
type V_Set[K comparable] map[K]bool
type V_Seq[T any] []T
type v_nonexec string
func v_no(what string) { panic(v_nonexec(what)) }
func V_forall(f any) bool { v_no("forall"); return true }
func V_exists(f any) bool { v_no("exists"); return true }
func V_implies(a, b bool) bool { return !a || b }
func V_iff(a, b bool) bool { return a == b }
func V_ite[T any](c bool, a, b T) T { if c { return a }; return b }
func V_in[K any](k K, c any) bool {
	cv := v_reflect.ValueOf(c)
	switch cv.Kind() {
	case v_reflect.Map:
		if !cv.IsValid() || cv.IsNil() { return false }
		kv := v_reflect.ValueOf(k)
		if kt := cv.Type().Key(); kv.IsValid() && kv.Type() != kt && kv.Type().ConvertibleTo(kt) && kt.Kind() != v_reflect.Interface && kt.Kind() != v_reflect.String { kv = kv.Convert(kt) }
		return cv.MapIndex(kv).IsValid()
	case v_reflect.Slice:
		for i := 0; i < cv.Len(); i++ { if v_reflect.DeepEqual(cv.Index(i).Interface(), any(k)) { return true } }
		return false
	}
	v_no("in"); return false
}
func V_old[T any](x T) T { v_no("old"); return x }
func V_fresh(x any) bool { v_no("fresh"); return true }
func V_elemsfresh(x any) bool { v_no("elemsfresh"); return true }
func V_fresherThan(x any, y any) bool { v_no("fresherThan"); return true }
func V_sameslice(x, y any) bool { v_no("sameslice"); return true }
func V_samebase(x, y any) bool { v_no("samebase"); return true }
func V_sameref(x, y any) bool { v_no("sameref"); return true }
func V_distinctbase(x, y any) bool { v_no("distinctbase"); return true }
func V_comparable(x any) bool { return x == nil || v_reflect.TypeOf(x).Comparable() }
func V_sliceprefix(x, y any) bool { v_no("sliceprefix"); return true }
func V_runeCount(s string) int { return v_utf8.RuneCountInString(s) }
func V_fnv32(s string) int { h := v_fnv.New32(); h.Write([]byte(s)); return int(h.Sum32()) }
func V_nonNilPayload(x any) bool {
	if x == nil { return true }
	v := v_reflect.ValueOf(x)
	switch v.Kind() { case v_reflect.Ptr, v_reflect.Map, v_reflect.Slice, v_reflect.Func, v_reflect.Chan: return !v.IsNil() }
	return true
}
func V_runeAt(s string, i int) rune { r, _ := v_utf8.DecodeRuneInString(s[i:]); return r }
func V_first[A, B any](a A, b B) A { return a }
func V_second[A, B any](a A, b B) B { return b }
func V_allocated(x any) bool { v_no("allocated"); return true }
func V_unchanged(x any) bool { v_no("unchanged"); return true }
func V_isnil(x any) bool {
	if x == nil { return true }
	v := v_reflect.ValueOf(x)
	switch v.Kind() { case v_reflect.Ptr, v_reflect.Map, v_reflect.Slice, v_reflect.Func, v_reflect.Chan, v_reflect.Interface: return v.IsNil() }
	return false
}
func V_dyn(x any) int { v_no("dyn"); return 0 }
func V_typeis[T any](x any) bool { _, ok := x.(T); return ok }
func V_kindof(x any) int { if x == nil { return 0 }; return int(v_reflect.ValueOf(x).Kind()) }
func V_payloadInt(x any) int {
	v := v_reflect.ValueOf(x)
	switch v.Kind() {
	case v_reflect.Int, v_reflect.Int8, v_reflect.Int16, v_reflect.Int32, v_reflect.Int64: return int(v.Int())
	case v_reflect.Uint, v_reflect.Uint8, v_reflect.Uint16, v_reflect.Uint32, v_reflect.Uint64, v_reflect.Uintptr:
		if v.Uint() > 1<<63-1 { v_no("payloadInt beyond int64") }
		return int(v.Uint())
	}
	v_no("payloadInt of non-integer"); return 0
}
func V_payloadStr(x any) string { v := v_reflect.ValueOf(x); if v.Kind() == v_reflect.String { return v.String() }; v_no("payloadStr of non-string"); return "" }
func V_payloadF64(x any) float64 { v := v_reflect.ValueOf(x); if v.Kind() == v_reflect.Float64 || v.Kind() == v_reflect.Float32 { return v.Float() }; v_no("payloadF64 of non-float"); return 0 }
func V_payloadBool(x any) bool { v := v_reflect.ValueOf(x); if v.Kind() == v_reflect.Bool { return v.Bool() }; v_no("payloadBool of non-bool"); return false }
func V_payloadRef[T any](x any) T { t, ok := x.(T); if !ok { v_no("payloadRef of another type") }; return t }
func V_boxof(x any) any { return x }
func V_dom[K comparable, V any](m map[K]V) V_Set[K] { s := V_Set[K]{}; for k := range m { s[k] = true }; return s }
func V_seqlen[T any](s V_Seq[T]) int { v_no("seqlen"); return 0 }
func V_seqat[T any](s V_Seq[T], i int) T { v_no("seqat"); var z T; return z }
func V_concat[T any](a, b V_Seq[T]) V_Seq[T] { v_no("concat"); return nil }
func V_isIntegral(f float64) bool { return !v_math.IsNaN(f) && !v_math.IsInf(f, 0) && f == v_math.Trunc(f) }
func V_isFinite(f float64) bool { return !v_math.IsNaN(f) && !v_math.IsInf(f, 0) }
func V_isNaN(f float64) bool { return v_math.IsNaN(f) }
type V_Real struct{ r *v_big.Rat }
func V_toReal(f float64) V_Real { r := new(v_big.Rat); if r.SetFloat64(f) == nil { v_no("toReal of a non-finite float") }; return V_Real{r} }
func V_realOfInt(i int) V_Real { return V_Real{new(v_big.Rat).SetInt64(int64(i))} }
func V_real(s string) V_Real { r, ok := new(v_big.Rat).SetString(s); if !ok { v_no("real literal") }; return V_Real{r} }
func V_rlt(a, b V_Real) bool { return a.r.Cmp(b.r) < 0 }
func V_rle(a, b V_Real) bool { return a.r.Cmp(b.r) <= 0 }
func V_req(a, b V_Real) bool { return a.r.Cmp(b.r) == 0 }
func V_hasPrefix(s, p string) bool { return v_strings.HasPrefix(s, p) }
func V_hasSuffix(s, p string) bool { return v_strings.HasSuffix(s, p) }
func V_contains(s, p string) bool { return v_strings.Contains(s, p) }
func V_after(s, sep string) string { if i := v_strings.Index(s, sep); i >= 0 { return s[i+len(sep):] }; return s }
func V_itoa(x int) string { return v_strconv.Itoa(x) }
func V_atoi(s string) int { n, err := v_strconv.ParseInt(s, 10, 64); if err != nil { v_no("atoi of a non-integer") }; return int(n) }
func V_parseIntOk(s string, bits int) bool { _, err := v_strconv.ParseInt(s, 10, bits); return err == nil }
func V_parseUintOk(s string, bits int) bool { _, err := v_strconv.ParseUint(s, 10, bits); return err == nil }
var v_decRe = v_regexp.MustCompile("^[+-]?[0-9]+(\\.[0-9]+)?$")
func V_isDecimal(s string) bool { return v_decRe.MatchString(s) }
func V_isDecInt(s string) bool { return v_regexp.MustCompile("^[+-]?[0-9]+$").MatchString(s) }
func V_parseFloat(s string) float64 { f, err := v_strconv.ParseFloat(s, 64); if err != nil { return v_math.NaN() }; return f }
`

const execImports = `import (
	v_reflect "reflect"
	v_utf8 "unicode/utf8"
	v_fnv "hash/fnv"
	v_math "math"
	v_big "math/big"
	v_strings "strings"
	v_strconv "strconv"
	v_regexp "regexp"
)
`

const execKeep = `
var _ = v_reflect.TypeOf
var _ = v_utf8.RuneLen
var _ = v_fnv.New32
var _ = v_math.Abs
var _ = v_big.NewInt
var _ = v_strings.TrimSpace
var _ = v_strconv.Itoa
var _ = v_regexp.MustCompile
`

// execSynthSource turns the synthetic specification file of a package into an executable one.
func execSynthSource(src string) (string, bool) {
	if !strings.Contains(src, synthPrelude) {
		return "", false
	}
	src = strings.Replace(src, synthPrelude, execPrelude, 1)
	// imports of the executable prelude go right after the package clause
	i := strings.Index(src, "\n")
	if i < 0 {
		return "", false
	}
	return src[:i+1] + execImports + src[i+1:] + execKeep, true
}

// clauseExecutable: the clause uses no builtin without an executable meaning (a cheap syntactic pre-filter; the
// run-time panic of the prelude is the real guard).
func clauseExecutable(goExpr string) bool {
	for _, b := range []string{"V_forall(", "V_exists(", "V_old(", "V_fresh(", "V_elemsfresh(", "V_allocated(", "V_unchanged(", "V_seqlen(", "V_seqat(", "V_dyn(", "V_sameslice(", "V_sameref("} {
		if strings.Contains(goExpr, b) {
			return false
		}
	}
	return true
}

// sweepPool returns a Go expression for a small pool of values of type t (nil when the type is not swept).
func sweepPool(g *goGen, t types.Type) string {
	ts := g.typeStr(t)
	if isIface(t) {
		if it, ok := t.Underlying().(*types.Interface); ok && it.NumMethods() == 0 {
			return `[]any{nil, int8(-128), int8(127), int16(-3), int32(7), int64(0), int64(5), int64(-9223372036854775808), int64(9223372036854775807), int(3), uint8(255), uint16(9), uint32(4294967295), uint64(0), uint64(18446744073709551615), uint(2),
				float64(0), float64(1.5), float64(0.00001), float64(-0.25), float64(1e21), float64(123456789.125), float64(1e-7), float32(2.5), "", "a", "x y", true, false, []byte("ab"), []any{int64(1)}, map[string]any{"k": "v"}}`
		}
		return ""
	}
	b, ok := t.Underlying().(*types.Basic)
	if !ok {
		return ""
	}
	conv := func(vals []string) string {
		var xs []string
		for _, v := range vals {
			xs = append(xs, ts+"("+v+")")
		}
		return "[]" + ts + "{" + strings.Join(xs, ", ") + "}"
	}
	switch {
	case b.Info()&types.IsBoolean != 0:
		return conv([]string{"false", "true"})
	case b.Info()&types.IsString != 0:
		return conv([]string{`""`, `"a"`, `"0"`, `"-1"`, `"a/b"`, `"é"`, `"^a|b"`, `"x y"`, `"12345678901234567890"`})
	case b.Info()&types.IsFloat != 0:
		m := g.imp("math", "math")
		return "[]" + ts + "{0, 1, -1, 0.5, 1.5, -0.9, 0.00001, 1e-7, 127.9, 128, 255, 256, 1e20, 1e21, 123456789.125, 4294967296, 9007199254740993, " + ts + "(" + m + ".Inf(1)), " + ts + "(" + m + ".NaN()), " + ts + "(" + m + ".SmallestNonzeroFloat64)}"
	case b.Info()&types.IsInteger != 0:
		lo, hi, bits, _ := intRange(b)
		if bits == 0 {
			return ""
		}
		cands := []string{"0", "1", "2", "3", "7", "127", "128", "255", "256", "32767", "65535", "2147483647", "4294967295", "-1", "-2", "-128", "-129", "-32768", lo.String(), hi.String()}
		var keep []string
		seen := map[string]bool{}
		for _, cnd := range cands {
			var v int64
			var big bool
			if _, err := fmt.Sscan(cnd, &v); err != nil {
				big = true
			}
			if !big && (lo.IsInt64() && v < lo.Int64() || hi.IsInt64() && v > hi.Int64()) {
				continue
			}
			if big && cnd != lo.String() && cnd != hi.String() {
				continue
			}
			if !seen[cnd] {
				seen[cnd] = true
				keep = append(keep, cnd)
			}
		}
		return conv(keep)
	}
	return ""
}
