module verif/engine

go 1.23

require (
	github.com/openconfig/goyang v1.6.0
	golang.org/x/tools v0.29.0
)

require (
	github.com/google/go-cmp v0.6.0 // indirect
	golang.org/x/mod v0.22.0 // indirect
	golang.org/x/sync v0.10.0 // indirect
)
