package main

import (
	"bytes"
	"fmt"
	"go/ast"
	"go/constant"
	"go/printer"
	"go/token"
	"go/types"
	"math/big"
	"strings"
)

func writeExpr(b *strings.Builder, n ast.Node) {
	var buf bytes.Buffer
	printer.Fprint(&buf, token.NewFileSet(), n)
	s := buf.String()
	s = strings.Join(strings.Fields(s), " ")
	if len(s) > 80 {
		s = s[:77] + "..."
	}
	b.WriteString(s)
}

func isUntypedNil(t types.Type) bool {
	b, ok := t.(*types.Basic)
	return ok && b.Kind() == types.UntypedNil
}

func isIface(t types.Type) bool {
	if t == nil {
		return false
	}
	_, ok := t.Underlying().(*types.Interface)
	if _, isTP := types.Unalias(t).(*types.TypeParam); isTP {
		return true
	}
	return ok
}

const nilPlaceholder = "NIL!"

// constTerm renders a constant value of Go type t.
func (c *FnCtx) constTerm(v constant.Value, t types.Type) string {
	switch v.Kind() {
	case constant.Bool:
		if constant.BoolVal(v) {
			return "true"
		}
		return "false"
	case constant.String:
		return strLit(constant.StringVal(v))
	case constant.Int:
		if b, ok := t.Underlying().(*types.Basic); ok && b.Info()&types.IsFloat != 0 {
			f, _ := constant.Float64Val(v)
			return c.floatLit(f)
		}
		bi, ok := new(big.Int).SetString(v.ExactString(), 10)
		if !ok {
			return v.ExactString()
		}
		return intLit(bi)
	case constant.Float:
		if b, ok := t.Underlying().(*types.Basic); ok && b.Info()&types.IsInteger != 0 {
			iv := constant.ToInt(v)
			bi, _ := new(big.Int).SetString(iv.ExactString(), 10)
			return intLit(bi)
		}
		f, _ := constant.Float64Val(v)
		return c.floatLit(f)
	}
	panic(unsupported{"unsupported constant kind"})
}

func (c *FnCtx) floatLit(f float64) string {
	if f != f {
		return "(_ NaN 11 53)"
	}
	r := new(big.Rat)
	if r.SetFloat64(f) == nil {
		if f > 0 {
			return "(_ +oo 11 53)"
		}
		return "(_ -oo 11 53)"
	}
	num, den := r.Num(), r.Denom()
	neg := num.Sign() < 0
	s := "(/ " + new(big.Int).Abs(num).String() + ".0 " + den.String() + ".0)"
	if neg {
		s = "(- " + s + ")"
	}
	return "((_ to_fp 11 53) RNE " + s + ")"
}

// eval evaluates a single-valued expression.
func (c *FnCtx) eval(e ast.Expr, st *State) string {
	if tv, ok := c.info().Types[e]; ok && tv.Value != nil {
		return c.constTerm(tv.Value, tv.Type)
	}
	switch x := e.(type) {
	case *ast.ParenExpr:
		return c.eval(x.X, st)
	case *ast.Ident:
		if x.Name == "nil" {
			if t := c.info().TypeOf(x); t != nil && !isUntypedNil(t) {
				return c.zero(t)
			}
			return nilPlaceholder
		}
		obj := c.info().Uses[x]
		if obj == nil {
			obj = c.info().Defs[x]
		}
		switch o := obj.(type) {
		case *types.Var:
			return c.readVar(st, o, x.Pos())
		case *types.Nil:
			return nilPlaceholder
		case *types.Const:
			return c.constTerm(o.Val(), o.Type())
		case *types.Func:
			return c.funcValue(o)
		}
		c.fail(x.Pos(), "unsupported identifier %s", x.Name)
	case *ast.BasicLit:
		c.fail(x.Pos(), "literal without constant value")
	case *ast.SelectorExpr:
		return c.evalSelector(x, st)
	case *ast.IndexExpr:
		vals := c.evalIndex(x, st, false)
		return vals[0]
	case *ast.SliceExpr:
		return c.evalSliceExpr(x, st)
	case *ast.StarExpr:
		p := c.eval(x.X, st)
		pt, ok := c.typeOf(x.X).Underlying().(*types.Pointer)
		if !ok {
			c.fail(x.Pos(), "deref of non-pointer")
		}
		c.safety(st, "nilderef", c.src(x), not(eq(p, "0")), x.Pos())
		return c.loadThrough(st, p, pt.Elem())
	case *ast.UnaryExpr:
		return c.evalUnary(x, st)
	case *ast.BinaryExpr:
		return c.evalBinary(x, st)
	case *ast.CallExpr:
		vals := c.evalCall(x, st)
		if len(vals) == 0 {
			return "0"
		}
		return vals[0]
	case *ast.CompositeLit:
		return c.evalComposite(x, st)
	case *ast.TypeAssertExpr:
		return c.evalTypeAssert(x, st, false)[0]
	case *ast.FuncLit:
		return c.closureValue(x)
	case *ast.KeyValueExpr:
		c.fail(x.Pos(), "unexpected key-value")
	}
	c.fail(e.Pos(), "unsupported expression %T", e)
	return ""
}

func (c *FnCtx) evalMulti(e ast.Expr, st *State) []string {
	switch x := e.(type) {
	case *ast.ParenExpr:
		return c.evalMulti(x.X, st)
	case *ast.CallExpr:
		return c.evalCall(x, st)
	case *ast.IndexExpr:
		if tup, ok := c.info().TypeOf(e).(*types.Tuple); ok && tup.Len() == 2 {
			return c.evalIndex(x, st, true)
		}
	case *ast.TypeAssertExpr:
		if tup, ok := c.info().TypeOf(e).(*types.Tuple); ok && tup.Len() == 2 {
			return c.evalTypeAssert(x, st, true)
		}
	}
	return []string{c.eval(e, st)}
}

func (c *FnCtx) loadThrough(st *State, p string, t types.Type) string {
	if s, ok := t.Underlying().(*types.Struct); ok {
		var fs []string
		for i := 0; i < s.NumFields(); i++ {
			n, srt := c.fieldArr(t, s.Field(i).Name())
			fs = append(fs, sel(c.h(st, n, srt), p))
		}
		srt := c.tt.sortOf(t)
		if len(fs) == 0 {
			return "(mk!" + srt + " 0)"
		}
		return "(mk!" + srt + " " + strings.Join(fs, " ") + ")"
	}
	n, srt := c.cellArr(t)
	return sel(c.h(st, n, srt), p)
}

func (c *FnCtx) evalSelector(x *ast.SelectorExpr, st *State) string {
	selInfo := c.info().Selections[x]
	if selInfo == nil {
		// qualified identifier
		obj := c.info().Uses[x.Sel]
		switch o := obj.(type) {
		case *types.Var:
			return c.readVar(st, o, x.Pos())
		case *types.Const:
			return c.constTerm(o.Val(), o.Type())
		case *types.Func:
			return c.funcValue(o)
		}
		c.fail(x.Pos(), "unsupported qualified identifier")
	}
	if selInfo.Kind() != types.FieldVal {
		c.fail(x.Pos(), "method values are not supported")
	}
	base := c.eval(x.X, st)
	bt := c.typeOf(x.X)
	idx := selInfo.Index()
	cur, curT := base, bt
	for _, i := range idx {
		if pt, ok := curT.Underlying().(*types.Pointer); ok {
			c.safety(st, "nilderef", c.src(x), not(eq(cur, "0")), x.Pos())
			s := pt.Elem().Underlying().(*types.Struct)
			f := s.Field(i)
			n, srt := c.fieldArr(pt.Elem(), f.Name())
			cur = sel(c.h(st, n, srt), cur)
			curT = f.Type()
			if c.specMode == 0 {
				cur = c.name(st, f.Name(), cur, c.tt.sortOf(curT))
				if inv := c.typeInv(st, cur, curT, 0); inv != "true" {
					st.addFact(inv)
				}
			}
			continue
		}
		s, ok := curT.Underlying().(*types.Struct)
		if !ok {
			c.fail(x.Pos(), "field selection on %s", curT)
		}
		f := s.Field(i)
		cur = "(" + c.tt.fieldAcc(curT, f.Name()) + " " + cur + ")"
		c.tt.sortOf(curT)
		curT = f.Type()
	}
	return cur
}

func (c *FnCtx) blenFacts(st *State, s string) {
	if c.specMode > 0 {
		return
	}
	st.addFact(and("(>= (blen "+s+") 0)", "(<= (blen "+s+") 1152921504606846976)", "(= (= (blen "+s+") 0) (= "+s+" \"\"))"))
}

func (c *FnCtx) evalIndex(x *ast.IndexExpr, st *State, commaOk bool) []string {
	// generic function instantiation?
	if tv, ok := c.info().Types[x.X]; ok && tv.IsType() {
		c.fail(x.Pos(), "generic instantiation not supported")
	}
	bt := c.typeOf(x.X)
	switch u := bt.Underlying().(type) {
	case *types.Map:
		m := c.eval(x.X, st)
		k := c.convertTo(c.eval(x.Index, st), c.typeOf(x.Index), u.Key(), st)
		dn, ds, vn, vs := c.mapArrs(u)
		present := sel(sel(c.h(st, dn, ds), m), k)
		val := sel(sel(c.h(st, vn, vs), m), k)
		if c.specMode > 0 {
			// total: absent key reads the zero value, as in Go
			return []string{ite(present, val, c.zero(u.Elem())), present}
		}
		present = c.name(st, "ok", present, sBool)
		v := c.name(st, "mv", ite(present, val, c.zero(u.Elem())), c.tt.sortOf(u.Elem()))
		if inv := c.typeInv(st, v, u.Elem(), 0); inv != "true" {
			st.addFact(inv)
		}
		return []string{v, present}
	case *types.Slice:
		s := c.eval(x.X, st)
		i := c.eval(x.Index, st)
		c.safety(st, "index", c.src(x), and("(<= 0 "+i+")", "(< "+i+" (slen "+s+"))"), x.Pos())
		n, srt := c.elemsArr(u.Elem())
		v := sel(sel(c.h(st, n, srt), "(sbase "+s+")"), "(+ (soff "+s+") "+i+")")
		if c.specMode == 0 {
			v = c.name(st, "ev", v, c.tt.sortOf(u.Elem()))
			if inv := c.typeInv(st, v, u.Elem(), 0); inv != "true" {
				st.addFact(inv)
			}
		}
		return []string{v}
	case *types.Array:
		a := c.eval(x.X, st)
		i := c.eval(x.Index, st)
		c.safety(st, "index", c.src(x), and("(<= 0 "+i+")", fmt.Sprintf("(< %s %d)", i, u.Len())), x.Pos())
		return []string{sel(a, i)}
	case *types.Basic:
		if u.Info()&types.IsString != 0 {
			s := c.eval(x.X, st)
			i := c.eval(x.Index, st)
			c.blenFacts(st, s)
			c.safety(st, "index", c.src(x), and("(<= 0 "+i+")", "(< "+i+" (blen "+s+"))"), x.Pos())
			c.declareFun("byteAt", []string{sString, sInt}, sInt)
			v := "(byteAt " + s + " " + i + ")"
			if c.specMode == 0 {
				st.addFact(and("(<= 0 "+v+")", "(<= "+v+" 255)"))
			}
			return []string{v}
		}
	case *types.Pointer:
		if at, ok := u.Elem().Underlying().(*types.Array); ok {
			_ = at
			c.fail(x.Pos(), "index through pointer to array not supported")
		}
	}
	if _, ok := isSeqType(bt); ok {
		sq := c.eval(x.X, st)
		i := c.eval(x.Index, st)
		srt := c.tt.sortOf(bt)
		return []string{sel("(qel"+srt+" "+sq+")", i)}
	}
	c.fail(x.Pos(), "unsupported index expression on %s", bt)
	return nil
}

func (c *FnCtx) evalSliceExpr(x *ast.SliceExpr, st *State) string {
	bt := c.typeOf(x.X)
	if x.Slice3 {
		c.fail(x.Pos(), "3-index slices not supported")
	}
	switch u := bt.Underlying().(type) {
	case *types.Slice:
		s := c.name(st, "s", c.eval(x.X, st), sSlice)
		lo, hi := "0", "(slen "+s+")"
		if x.Low != nil {
			lo = c.eval(x.Low, st)
		}
		if x.High != nil {
			hi = c.eval(x.High, st)
		}
		c.safety(st, "slice", c.src(x), and("(<= 0 "+lo+")", "(<= "+lo+" "+hi+")", "(<= "+hi+" (scap "+s+"))"), x.Pos())
		_ = u
		return "(mkSlice (sbase " + s + ") (+ (soff " + s + ") " + lo + ") (- " + hi + " " + lo + ") (- (scap " + s + ") " + lo + "))"
	case *types.Basic:
		if u.Info()&types.IsString != 0 {
			s := c.name(st, "s", c.eval(x.X, st), sString)
			c.blenFacts(st, s)
			lo, hi := "0", "(blen "+s+")"
			if x.Low != nil {
				lo = c.eval(x.Low, st)
			}
			if x.High != nil {
				hi = c.eval(x.High, st)
			}
			c.safety(st, "slice", c.src(x), and("(<= 0 "+lo+")", "(<= "+lo+" "+hi+")", "(<= "+hi+" (blen "+s+"))"), x.Pos())
			c.declareFun("substrB", []string{sString, sInt, sInt}, sString)
			r := "(substrB " + s + " " + lo + " " + hi + ")"
			if c.specMode == 0 {
				st.addFact(eq("(blen "+r+")", "(- "+hi+" "+lo+")"))
				st.addFact(implies(and(eq(lo, "0"), eq(hi, "(blen "+s+")")), eq(r, s)))
			}
			return r
		}
	}
	if _, ok := isSeqType(bt); ok {
		c.fail(x.Pos(), "slicing of ghost sequences not supported")
	}
	c.fail(x.Pos(), "unsupported slice expression on %s", bt)
	return ""
}

func (c *FnCtx) evalUnary(x *ast.UnaryExpr, st *State) string {
	switch x.Op {
	case token.NOT:
		return not(c.eval(x.X, st))
	case token.SUB:
		v := c.eval(x.X, st)
		t := c.typeOf(x.X)
		if b, ok := t.Underlying().(*types.Basic); ok {
			if b.Info()&types.IsFloat != 0 {
				return "(fp.neg " + v + ")"
			}
			return c.wrapInt("(- "+v+")", b)
		}
		return "(- " + v + ")"
	case token.ADD:
		return c.eval(x.X, st)
	case token.XOR:
		v := c.eval(x.X, st)
		t := c.typeOf(x.X)
		if b, ok := t.Underlying().(*types.Basic); ok {
			_, _, bits, signed := intRange(b)
			if signed {
				return "(- (- " + v + ") 1)"
			}
			return "(- " + new(big.Int).Sub(pow2(bits), big.NewInt(1)).String() + " " + v + ")"
		}
	case token.AND:
		return c.evalAddrOf(x, st)
	case token.ARROW:
		c.fail(x.Pos(), "channel receive not supported")
	}
	c.fail(x.Pos(), "unsupported unary operator %s", x.Op)
	return ""
}

func (c *FnCtx) evalAddrOf(x *ast.UnaryExpr, st *State) string {
	inner := x.X
	for {
		if p, ok := inner.(*ast.ParenExpr); ok {
			inner = p.X
			continue
		}
		break
	}
	switch y := inner.(type) {
	case *ast.CompositeLit:
		t := c.typeOf(y)
		v := c.evalComposite(y, st)
		if _, ok := t.Underlying().(*types.Struct); ok {
			return c.allocStruct(st, t, v)
		}
		// &[]T{} etc: cell
		r := c.newRef(st, "cell")
		n, srt := c.cellArr(t)
		c.setH(st, n, srt, store(c.h(st, n, srt), r, v))
		return r
	case *ast.Ident:
		obj := c.info().Uses[y]
		b, ok := st.vars[obj]
		if ok && b.cell {
			return b.term
		}
		c.fail(x.Pos(), "address of non-promoted variable %s", y.Name)
	case *ast.SelectorExpr:
		if id, ok := unparen(y.X).(*ast.Ident); ok {
			if obj := c.info().Uses[id]; obj != nil {
				if r, ok := c.fieldCells[obj][y.Sel.Name]; ok {
					return r
				}
			}
		}
	}
	c.fail(x.Pos(), "unsupported address-of expression (interior pointers are not modelled)")
	return ""
}

// allocStruct allocates a new struct object with the given value.
func (c *FnCtx) allocStruct(st *State, t types.Type, v string) string {
	s := t.Underlying().(*types.Struct)
	r := c.newRef(st, sanitize(c.tt.key(t)))
	v = c.name(st, "sv", v, c.tt.sortOf(t))
	for i := 0; i < s.NumFields(); i++ {
		f := s.Field(i)
		n, srt := c.fieldArr(t, f.Name())
		c.setH(st, n, srt, store(c.h(st, n, srt), r, "("+c.tt.fieldAcc(t, f.Name())+" "+v+")"))
	}
	return r
}

func (c *FnCtx) wrapInt(term string, b *types.Basic) string {
	if c.specMode > 0 {
		return term // specifications use mathematical integers
	}
	if b.Kind() == types.Int || b.Kind() == types.UntypedInt {
		return term // int arithmetic treated as mathematical (listed assumption)
	}
	return wrapTo(term, b)
}

func (c *FnCtx) evalBinary(x *ast.BinaryExpr, st *State) string {
	switch x.Op {
	case token.LAND, token.LOR:
		l := c.eval(x.X, st)
		if c.specMode > 0 {
			r := c.eval(x.Y, st)
			if x.Op == token.LAND {
				return and(l, r)
			}
			return or(l, r)
		}
		l = c.name(st, "sc", l, sBool)
		sub := st.clone()
		if x.Op == token.LAND {
			sub.addCond(l)
		} else {
			sub.addCond(not(l))
		}
		nh := len(sub.hyps)
		r := c.eval(x.Y, sub)
		// bring definitions/facts learnt in the sub-state back, guarded
		g := l
		if x.Op == token.LOR {
			g = not(l)
		}
		for _, h := range sub.hyps[nh:] {
			switch h.kind {
			case 'd':
				st.hyps = append(st.hyps, h)
			case 'f', 'c':
				st.hyps = append(st.hyps, Hyp{implies(g, h.s), 'f'})
			}
		}
		// heap effects inside the rhs (calls) are merged
		for k, v := range sub.heap {
			if st.heap[k] != v {
				old := c.h(st, k, c.heapSort[k])
				c.setH(st, k, c.heapSort[k], ite(g, v, old))
			}
		}
		if x.Op == token.LAND {
			return and(l, r)
		}
		return or(l, r)
	}
	lt, rt := c.typeOf(x.X), c.typeOf(x.Y)
	l := c.eval(x.X, st)
	r := c.eval(x.Y, st)
	switch x.Op {
	case token.EQL, token.NEQ:
		var res string
		switch {
		case l == nilPlaceholder && r == nilPlaceholder:
			res = "true"
		case l == nilPlaceholder || isUntypedNil(lt):
			res = c.isNil(r, rt)
		case r == nilPlaceholder || isUntypedNil(rt):
			res = c.isNil(l, lt)
		default:
			// mixed interface / concrete comparison: never panics (the concrete type is comparable)
			mixed := false
			if isIface(lt) && !isIface(rt) {
				r = c.box(r, rt, st)
				rt = lt
				mixed = true
			} else if isIface(rt) && !isIface(lt) {
				l = c.box(l, lt, st)
				lt = rt
				mixed = true
			}
			if mixed || assumedComparableIface(lt) {
				res = eq(l, r)
			} else {
				c.cmpLabel = c.src(x)
				res = c.equal(l, r, lt, st, x.Pos())
			}
		}
		if x.Op == token.NEQ {
			return not(res)
		}
		return res
	}
	return c.binop(x.Op, l, r, lt, rt, x.Y, st, x.Pos())
}

func (c *FnCtx) isNil(v string, t types.Type) string {
	switch t.Underlying().(type) {
	case *types.Slice:
		return eq("(sbase "+v+")", "0")
	case *types.Interface:
		return eq(v, "inil")
	}
	return eq(v, "0")
}

func (c *FnCtx) equal(l, r string, t types.Type, st *State, pos token.Pos) string {
	switch u := t.Underlying().(type) {
	case *types.Basic:
		if u.Info()&types.IsFloat != 0 {
			return "(fp.eq " + l + " " + r + ")"
		}
	case *types.Interface:
		if c.specMode == 0 && c.safetyOn {
			c.declare("dummy", sInt)
			goal := or(eq(l, "inil"), eq(r, "inil"), not(eq("(ityp "+l+")", "(ityp "+r+")")), "(tcomparable (ityp "+l+"))")
			if goal != "true" && !(strings.HasPrefix(l, "(ibox ") && knownComparable(l)) && !(strings.HasPrefix(r, "(ibox ") && knownComparable(r)) {
				lbl := c.cmpLabel
				if lbl == "" {
					lbl = "=="
				}
				c.cmpLabel = ""
				c.safety(st, "ifacecmp", lbl, goal, pos)
			}
		}
	case *types.Slice:
		return and(eq("(sbase "+l+")", "0"), eq("(sbase "+r+")", "0"))
	}
	return eq(l, r)
}

// assumedComparableIface: static interface types whose dynamic values are assumed comparable
// (reflect.Type holds *rtype; error values of the libraries used are pointers or strings). Listed assumption.
func assumedComparableIface(t types.Type) bool {
	n, ok := types.Unalias(t).(*types.Named)
	if !ok {
		return false
	}
	if n.Obj().Pkg() == nil {
		return n.Obj().Name() == "error"
	}
	return n.Obj().Pkg().Path() == "reflect" && n.Obj().Name() == "Type"
}

func knownComparable(box string) bool { return !strings.Contains(box, "mkSlice") || strings.HasSuffix(box, " nilSlice)") }

func (c *FnCtx) binop(op token.Token, l, r string, lt, rt types.Type, rhs ast.Expr, st *State, pos token.Pos) string {
	b, _ := lt.Underlying().(*types.Basic)
	if b == nil {
		c.fail(pos, "binary operator %s on %s", op, lt)
	}
	if ub, ok := lt.(*types.Basic); ok && ub.Info()&types.IsUntyped != 0 {
		if rb, ok := rt.Underlying().(*types.Basic); ok {
			b = rb
		}
	}
	switch {
	case b.Info()&types.IsString != 0:
		switch op {
		case token.ADD:
			return "(str.++ " + l + " " + r + ")"
		case token.LSS:
			return "(str.< " + l + " " + r + ")"
		case token.LEQ:
			return "(str.<= " + l + " " + r + ")"
		case token.GTR:
			return "(str.< " + r + " " + l + ")"
		case token.GEQ:
			return "(str.<= " + r + " " + l + ")"
		}
	case b.Info()&types.IsFloat != 0:
		switch op {
		case token.ADD:
			return "(fp.add RNE " + l + " " + r + ")"
		case token.SUB:
			return "(fp.sub RNE " + l + " " + r + ")"
		case token.MUL:
			return "(fp.mul RNE " + l + " " + r + ")"
		case token.QUO:
			return "(fp.div RNE " + l + " " + r + ")"
		case token.LSS:
			return "(fp.lt " + l + " " + r + ")"
		case token.LEQ:
			return "(fp.leq " + l + " " + r + ")"
		case token.GTR:
			return "(fp.gt " + l + " " + r + ")"
		case token.GEQ:
			return "(fp.geq " + l + " " + r + ")"
		}
	case b.Info()&types.IsInteger != 0:
		switch op {
		case token.ADD:
			return c.wrapInt("(+ "+l+" "+r+")", b)
		case token.SUB:
			return c.wrapInt("(- "+l+" "+r+")", b)
		case token.MUL:
			return c.wrapInt("(* "+l+" "+r+")", b)
		case token.QUO:
			c.safety(st, "div", "/", not(eq(r, "0")), pos)
			return c.wrapInt("(godiv "+l+" "+r+")", b)
		case token.REM:
			c.safety(st, "div", "%", not(eq(r, "0")), pos)
			return "(gomod " + l + " " + r + ")"
		case token.LSS:
			return "(< " + l + " " + r + ")"
		case token.LEQ:
			return "(<= " + l + " " + r + ")"
		case token.GTR:
			return "(> " + l + " " + r + ")"
		case token.GEQ:
			return "(>= " + l + " " + r + ")"
		case token.AND:
			// x & (2^k - 1) == x mod 2^k for non-negative x
			if tv, ok := c.info().Types[rhs]; ok && tv.Value != nil && tv.Value.Kind() == constant.Int {
				bi, _ := new(big.Int).SetString(tv.Value.ExactString(), 10)
				if bi != nil {
					p := new(big.Int).Add(bi, big.NewInt(1))
					if p.Sign() > 0 && new(big.Int).And(p, bi).Sign() == 0 {
						_, _, _, signed := intRange(b)
						if !signed {
							return "(mod " + l + " " + p.String() + ")"
						}
					}
				}
			}
			c.declareFun("bv_and", []string{sInt, sInt}, sInt)
			return "(bv_and " + l + " " + r + ")"
		case token.OR:
			c.declareFun("bv_or", []string{sInt, sInt}, sInt)
			return "(bv_or " + l + " " + r + ")"
		case token.XOR:
			c.declareFun("bv_xor", []string{sInt, sInt}, sInt)
			return "(bv_xor " + l + " " + r + ")"
		case token.SHL:
			c.declareFun("bv_shl", []string{sInt, sInt}, sInt)
			return "(bv_shl " + l + " " + r + ")"
		case token.SHR:
			c.declareFun("bv_shr", []string{sInt, sInt}, sInt)
			return "(bv_shr " + l + " " + r + ")"
		case token.AND_NOT:
			c.declareFun("bv_andnot", []string{sInt, sInt}, sInt)
			return "(bv_andnot " + l + " " + r + ")"
		}
	case b.Info()&types.IsBoolean != 0:
	}
	c.fail(pos, "unsupported binary operator %s on %s", op, lt)
	return ""
}

// ---------- interfaces ----------

func (c *FnCtx) box(v string, t types.Type, st *State) string {
	if isIface(t) {
		return v
	}
	if isUntypedNil(t) || v == nilPlaceholder {
		return "inil"
	}
	tid := c.tt.tid(t)
	slots := []string{"0", `""`, "false", "fpzero", "0", "nilSlice"}
	switch u := t.Underlying().(type) {
	case *types.Basic:
		switch {
		case u.Info()&types.IsBoolean != 0:
			slots[2] = v
		case u.Info()&types.IsInteger != 0:
			slots[0] = v
		case u.Info()&types.IsString != 0:
			slots[1] = v
		case u.Info()&types.IsFloat != 0:
			slots[3] = v
		default:
			slots[0] = v
		}
	case *types.Pointer, *types.Map, *types.Chan, *types.Signature:
		slots[4] = v
	case *types.Slice:
		slots[5] = v
	case *types.Struct:
		// struct values are boxed through an injective encoding function
		fn := "encS!" + c.tt.key(t)
		dn := "decS!" + c.tt.key(t)
		srt := c.tt.sortOf(t)
		c.declareFun(fn, []string{srt}, sInt)
		c.declareFun(dn, []string{sInt}, srt)
		if st != nil && c.specMode == 0 {
			st.addFact(eq("("+dn+" ("+fn+" "+v+"))", v))
		}
		slots[0] = "(" + fn + " " + v + ")"
	default:
		slots[0] = v
	}
	return "(ibox " + tid + " " + strings.Join(slots, " ") + ")"
}

func (c *FnCtx) unbox(v string, t types.Type, st *State) string {
	if isIface(t) {
		return v
	}
	switch u := t.Underlying().(type) {
	case *types.Basic:
		switch {
		case u.Info()&types.IsBoolean != 0:
			return "(ibool " + v + ")"
		case u.Info()&types.IsInteger != 0:
			r := "(iint " + v + ")"
			if st != nil && c.specMode == 0 {
				st.addFact(implies(c.dynTypeIs(v, t), c.typeInv(st, r, t, 0)))
			}
			return r
		case u.Info()&types.IsString != 0:
			return "(istr " + v + ")"
		case u.Info()&types.IsFloat != 0:
			return "(ifp " + v + ")"
		}
		return "(iint " + v + ")"
	case *types.Pointer, *types.Map, *types.Chan, *types.Signature:
		return "(iref " + v + ")"
	case *types.Slice:
		r := "(isl " + v + ")"
		if st != nil && c.specMode == 0 {
			st.addFact(implies(c.dynTypeIs(v, t), c.typeInv(st, r, t, 0)))
		}
		return r
	case *types.Struct:
		dn := "decS!" + c.tt.key(t)
		fn := "encS!" + c.tt.key(t)
		srt := c.tt.sortOf(t)
		c.declareFun(fn, []string{srt}, sInt)
		c.declareFun(dn, []string{sInt}, srt)
		return "(" + dn + " (iint " + v + "))"
	}
	return "(iint " + v + ")"
}

// dynTypeIs: v's dynamic type is T (T concrete), or v implements T (T interface).
func (c *FnCtx) dynTypeIs(v string, T types.Type) string {
	if isIface(T) {
		it := T.Underlying().(*types.Interface)
		if it.NumMethods() == 0 {
			return not(eq(v, "inil"))
		}
		c.declareFun("implements", []string{sInt, sInt}, sBool)
		return and(not(eq(v, "inil")), "(implements (ityp "+v+") "+c.tt.tid(T)+")")
	}
	return and("((_ is ibox) "+v+")", eq("(ityp "+v+")", c.tt.tid(T)))
}

func (c *FnCtx) evalTypeAssert(x *ast.TypeAssertExpr, st *State, commaOk bool) []string {
	v := c.eval(x.X, st)
	v = c.name(st, "ta", v, sIface)
	T := c.typeOf(x.Type)
	is := c.dynTypeIs(v, T)
	if !commaOk {
		c.safety(st, "typeassert", c.src(x), is, x.Pos())
		return []string{c.unbox(v, T, st)}
	}
	is = c.name(st, "isT", is, sBool)
	return []string{ite(is, c.unbox(v, T, st), c.zero(T)), is}
}

// convertTo performs the implicit conversion of an assignment.
func (c *FnCtx) convertTo(v string, from, to types.Type, st *State) string {
	if to == nil {
		return v
	}
	if v == nilPlaceholder || isUntypedNil(from) {
		return c.zero(to)
	}
	if isIface(to) && from != nil && !isIface(from) {
		return c.box(v, from, st)
	}
	return v
}

// ---------- composite literals ----------

func (c *FnCtx) evalComposite(x *ast.CompositeLit, st *State) string {
	t := c.typeOf(x)
	if pt, ok := t.Underlying().(*types.Pointer); ok && x.Type == nil {
		// elided `&T` in a []*T / map[K]*T literal: go/types records the pointer type; the value built here is
		// the pointee (evalElt allocates it)
		t = pt.Elem()
	}
	switch u := t.Underlying().(type) {
	case *types.Struct:
		vals := make([]string, u.NumFields())
		for i := range vals {
			vals[i] = c.zero(u.Field(i).Type())
		}
		for i, el := range x.Elts {
			if kv, ok := el.(*ast.KeyValueExpr); ok {
				name := kv.Key.(*ast.Ident).Name
				for j := 0; j < u.NumFields(); j++ {
					if u.Field(j).Name() == name {
						vals[j] = c.convertTo(c.evalElt(kv.Value, u.Field(j).Type(), st), c.eltType(kv.Value, u.Field(j).Type()), u.Field(j).Type(), st)
					}
				}
			} else {
				vals[i] = c.convertTo(c.evalElt(el, u.Field(i).Type(), st), c.eltType(el, u.Field(i).Type()), u.Field(i).Type(), st)
			}
		}
		srt := c.tt.sortOf(t)
		if len(vals) == 0 {
			return "(mk!" + srt + " 0)"
		}
		return "(mk!" + srt + " " + strings.Join(vals, " ") + ")"
	case *types.Slice:
		n := len(x.Elts)
		base := c.newRef(st, "arr")
		an, asrt := c.elemsArr(u.Elem())
		E := c.h(st, an, asrt)
		row := sel(E, base)
		for i, el := range x.Elts {
			if _, ok := el.(*ast.KeyValueExpr); ok {
				c.fail(el.Pos(), "indexed slice literals not supported")
			}
			v := c.convertTo(c.evalElt(el, u.Elem(), st), c.eltType(el, u.Elem()), u.Elem(), st)
			E = c.h(st, an, asrt)
			row = store(row, fmt.Sprint(i), v)
		}
		if n > 0 {
			c.setH(st, an, asrt, store(c.h(st, an, asrt), base, row))
		}
		return fmt.Sprintf("(mkSlice %s 0 %d %d)", base, n, n)
	case *types.Map:
		m := c.newRef(st, "map")
		dn, ds, vn, vs := c.mapArrs(u)
		inner := "(Array " + c.tt.sortOf(u.Key()) + " Bool)"
		c.setH(st, dn, ds, store(c.h(st, dn, ds), m, "((as const "+inner+") false)"))
		_ = vn
		_ = vs
		for _, el := range x.Elts {
			kv := el.(*ast.KeyValueExpr)
			k := c.convertTo(c.evalElt(kv.Key, u.Key(), st), c.eltType(kv.Key, u.Key()), u.Key(), st)
			v := c.convertTo(c.evalElt(kv.Value, u.Elem(), st), c.eltType(kv.Value, u.Elem()), u.Elem(), st)
			c.mapStore(st, u, m, k, v)
		}
		return m
	case *types.Array:
		arr := c.zero(t)
		for i, el := range x.Elts {
			if _, ok := el.(*ast.KeyValueExpr); ok {
				c.fail(el.Pos(), "indexed array literals not supported")
			}
			arr = store(arr, fmt.Sprint(i), c.convertTo(c.evalElt(el, u.Elem(), st), c.eltType(el, u.Elem()), u.Elem(), st))
		}
		return arr
	}
	c.fail(x.Pos(), "unsupported composite literal of type %s", t)
	return ""
}

// evalElt evaluates an element of a composite literal; elided types (`{...}`) get the element type.
func (c *FnCtx) evalElt(e ast.Expr, t types.Type, st *State) string {
	if cl, ok := e.(*ast.CompositeLit); ok && cl.Type == nil {
		if pt, ok := t.Underlying().(*types.Pointer); ok {
			v := c.evalComposite(cl, st)
			return c.allocStruct(st, pt.Elem(), v)
		}
	}
	return c.eval(e, st)
}

func (c *FnCtx) eltType(e ast.Expr, t types.Type) types.Type {
	if cl, ok := e.(*ast.CompositeLit); ok && cl.Type == nil {
		return t
	}
	return c.info().TypeOf(e)
}

// ---------- frames ----------

// frameCheck: a store into object `obj` must be allowed by the modifies clause or hit a fresh object.
func (c *FnCtx) frameCheck(st *State, kind, obj, text string, pos token.Pos) {
	c.frameOblige(st, kind, obj, "", nil, text, pos)
}

func (c *FnCtx) frameCheckField(st *State, obj string, structT types.Type, field, text string, pos token.Pos) {
	c.frameOblige(st, "field", obj, field, structT, text, pos)
}

func (c *FnCtx) frameOblige(st *State, kind, obj, field string, structT types.Type, text string, pos token.Pos) {
	if c.specMode > 0 || !c.frameOn || c.con == nil {
		return
	}
	entryAlloc := c.heapName("alloc", 0)
	c.declare(entryAlloc, "(Array Int Bool)")
	allowed := []string{not(sel(entryAlloc, obj))}
	if c.con.ModHeap {
		return
	}
	if c.frameExtraAllow != "" {
		allowed = append(allowed, c.frameExtraAllow)
	}
	if kind == "field" && structT != nil {
		fb, _ := c.fieldArr(structT, field)
		for _, m := range c.con.Modifies {
			if m.Kind == "subtree" {
				if _, ok := c.subtreeBases(c.synthResultType(m.GoFn, c.pkg))[fb]; ok {
					return // a field of a struct type of the subtree: allowed at type level
				}
			}
		}
	}
	for _, m := range c.con.Modifies {
		switch {
		case m.Kind == "field" && kind == "field" && m.Fld == field:
			o := c.evalModObj(m)
			allowed = append(allowed, eq(obj, o))
		case m.Kind == "field" && kind == "struct":
			// whole-struct store needs every field; not expressible -> not allowed
		case m.Kind == "mapall" && kind == "map":
			allowed = append(allowed, eq(obj, c.evalModObj(m)))
		case m.Kind == "elems" && kind == "elems":
			allowed = append(allowed, eq(obj, "(sbase "+c.evalModObj(m)+")"))
		case m.Kind == "cell" && kind == "cell":
			allowed = append(allowed, eq(obj, c.evalModObj(m)))
		}
	}
	save := c.curProp
	c.curProp = c.frameProp()
	c.oblige(st, "frame", "frame["+text+"]", or(allowed...), pos, text)
	c.curProp = save
}

// evalModObj evaluates the object expression of a modifies location in the entry state.
func (c *FnCtx) evalModObj(m *ModLoc) string {
	args := map[string]string{}
	for _, n := range m.Params {
		args[n] = c.paramTerms[n]
	}
	return c.evalSynth(m.GoFn, c.pkg, args, c.entry, true)
}
