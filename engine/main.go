package main

import (
	"encoding/json"
	"flag"
	"fmt"
	"os"
	"path/filepath"
	"sort"
	"strconv"
	"strings"
	"time"
)

func main() {
	if len(os.Args) < 2 {
		fmt.Fprintln(os.Stderr, "usage: govc check|replay|spec ...")
		os.Exit(2)
	}
	switch os.Args[1] {
	case "check":
		os.Exit(cmdCheck(os.Args[2:]))
	case "replay":
		os.Exit(cmdReplay(os.Args[2:]))
	case "spec":
		s, err := translateSpecExpr(strings.Join(os.Args[2:], " "))
		fmt.Println(s, err)
	default:
		fmt.Fprintln(os.Stderr, "unknown command")
		os.Exit(2)
	}
}

func cmdReplay(args []string) int {
	if len(args) < 1 {
		fmt.Fprintln(os.Stderr, "usage: govc replay <file.json>")
		return 2
	}
	b, err := os.ReadFile(args[0])
	if err != nil {
		fmt.Fprintln(os.Stderr, err)
		return 2
	}
	var rf ReplayFile
	if err := json.Unmarshal(b, &rf); err != nil {
		fmt.Fprintln(os.Stderr, err)
		return 2
	}
	fmt.Printf("obligation: %s\nclause:     %s\nsolver:     %s %s\n", rf.Obligation, rf.Clause, rf.Solver, rf.SolverOutput)
	if rf.TestSource == "" {
		fmt.Printf("no replayable input recorded: %s\n", rf.Note)
		return 1
	}
	tmp, _ := os.MkdirTemp("", "verif-replay")
	defer os.RemoveAll(tmp)
	if strings.Contains(rf.TestPkgDir, "/"+genDirName+"/") {
		// counterexample against generated code: regenerate it from the current tree
		dir, _, _, _, gerr := generateCorpus("/repo", "/verif", corpusFor(rf.Property, "/repo", "/verif"), nil)
		if dir != "" {
			defer os.RemoveAll(dir)
		}
		if gerr != nil {
			fmt.Println("MACHINERY-ERROR:", gerr)
			return 2
		}
	}
	rf.Reproduced = false
	runReplay(&rf, "/repo", tmp)
	fmt.Printf("inputs:     %s\npredicted:  %s\nreal run:   %s\nreproduced: %v\n", strings.Join(rf.Inputs, "; "), strings.Join(rf.Predicted, ", "), rf.RealOutput, rf.Reproduced)
	if rf.Reproduced {
		return 1
	}
	return 0
}

func cmdCheck(args []string) int {
	fs := flag.NewFlagSet("check", flag.ExitOnError)
	repo := fs.String("repo", "/repo", "repository root")
	prop := fs.String("prop", "", "property id")
	tier := fs.String("tier", "quick", "quick|thorough")
	pkgs := fs.String("pkgs", "", "comma-separated package patterns (default: from props table)")
	only := fs.String("func", "", "only this function (debug)")
	verbose := fs.Bool("v", false, "verbose")
	verifDir := fs.String("verif", "/verif", "verif dir")
	timeout := fs.Int("timeout", 30, "solver timeout (s)")
	fs.Parse(args)
	t0 := time.Now()
	genTier = *tier
	pc := propConfig(*prop, *verifDir)
	patterns := pc.Pkgs
	if *pkgs != "" {
		patterns = strings.Split(*pkgs, ",")
	}
	lo := LoadOpts{RepoDir: *repo, Patterns: patterns, ExtSpecs: pc.ExtSpecs}
	var genInstances []string
	if pc.Gen {
		// generated-code property: run the working tree's generator into a scratch module and verify its output
		dir, ov, pats, insts, gerr := generateCorpus(*repo, *verifDir, corpusFor(*prop, *repo, *verifDir), map[string]bool{*prop: true})
		if dir != "" && os.Getenv("VERIF_KEEP_GEN") == "" {
			defer os.RemoveAll(dir)
		}
		if gerr != nil {
			fmt.Println("MACHINERY-ERROR:", gerr)
			return 2
		}
		if os.Getenv("VERIF_KEEP_GEN") != "" {
			fmt.Fprintln(os.Stderr, "generated corpus kept in", dir)
		}
		genInstances = insts
		lo.Overlay = ov
		lo.Patterns = append(pats, patterns...)
	}
	prog, err := loadProgram(lo)
	if err != nil {
		fmt.Println("MACHINERY-ERROR:", err)
		return 2
	}
	fmt.Fprintf(os.Stderr, "loaded in %.1fs\n", time.Since(t0).Seconds())
	e := &Engine{prog: prog, tt: newTypeTable(), baseSorts: map[string]string{}, workDir: filepath.Join(*verifDir, "work", *prop), tier: *tier, timeoutS: *timeout}
	if *tier == "thorough" {
		e.timeoutS = *timeout * 3
	}
	registerCommonDynTypes(e.tt)
	os.RemoveAll(e.workDir)
	os.MkdirAll(e.workDir, 0o755)
	os.RemoveAll(filepath.Join(*verifDir, "replays", *prop))
	var keys []string
	for k, c := range prog.Contracts {
		if *prop != "" && !c.Props[*prop] {
			continue
		}
		if c.Assumed || (c.Mode == "pure" && len(c.Ensures) == 0) || c.Mode == "opaque" {
			continue
		}
		if *only != "" && !strings.HasSuffix(k, *only) && !(strings.HasPrefix(*only, "~") && strings.Contains(k, (*only)[1:])) {
			continue
		}
		keys = append(keys, k)
	}
	sort.Strings(keys)
	var results []*FnResult
	for _, k := range keys {
		c := prog.Contracts[k]
		p := prog.Pkgs[c.Pkg]
		r := e.verifyFunc(p, c)
		// drop obligations that belong to other properties before solving
		var keep []*Obl
		for _, o := range r.Obls {
			if *prop == "" || o.Prop == *prop || o.Prop == "*" {
				keep = append(keep, o)
			}
		}
		r.Obls = keep
		results = append(results, r)
	}
	for _, l := range prog.Lemmas {
		if *prop != "" && l.C.Prop != *prop {
			continue
		}
		if *only != "" && !strings.Contains(l.C.Label, *only) {
			continue
		}
		results = append(results, e.verifyLemma(l))
	}
	e.solveAll(results)
	seed, _ := strconv.ParseInt(os.Getenv("VERIF_SEED"), 10, 64)
	return finishRun(e, results, runOpts{prop: *prop, tier: *tier, verbose: *verbose, t0: t0, verifDir: *verifDir, repoDir: *repo,
		checkerCmd: "./check " + *prop + " " + *tier, seed: seed, genInstances: genInstances})
}

type PropConfig struct {
	Pkgs     []string
	ExtSpecs []string
	Gen      bool // verify the generator's output on the schema corpus
}

func propConfig(id, verifDir string) PropConfig {
	ext, _ := filepath.Glob(filepath.Join(verifDir, "contracts", "ext", "*.go"))
	switch id {
	case "C09":
		return PropConfig{Pkgs: []string{"./util"}, ExtSpecs: ext}
	case "C06", "C18", "C13":
		return PropConfig{Pkgs: []string{"./util", "./ytypes"}, ExtSpecs: ext}
	case "C28":
		return PropConfig{Pkgs: []string{"./protogen"}, ExtSpecs: ext}
	case "C22", "C23":
		return PropConfig{Pkgs: []string{"./gnmidiff"}, ExtSpecs: ext}
	case "C15", "C34", "C33":
		return PropConfig{Gen: true, ExtSpecs: ext}
	case "C17":
		return PropConfig{Gen: true, Pkgs: []string{"./ygot", "./ytypes"}, ExtSpecs: ext}
	case "C29":
		return PropConfig{Gen: true, Pkgs: []string{"./ygot"}, ExtSpecs: ext}
	case "C24":
		return PropConfig{Pkgs: []string{"./protomap"}, ExtSpecs: ext}
	case "C07":
		return PropConfig{Pkgs: []string{"./util", "./ytypes"}, ExtSpecs: ext}
	case "C05", "C03", "C32":
		return PropConfig{Pkgs: []string{"./ygot"}, ExtSpecs: ext}
	case "C16", "C19":
		return PropConfig{Pkgs: []string{"./ygot", "./ytypes"}, ExtSpecs: ext}
	case "C11", "C20":
		return PropConfig{Pkgs: []string{"./util", "./ytypes", "./ygot", "./gnmidiff"}, ExtSpecs: ext}
	}
	return PropConfig{Pkgs: []string{"./util"}, ExtSpecs: ext}
}
