package main

import (
	"runtime"
	"context"
	"fmt"
	"go/ast"
	"go/types"
	"os"
	"os/exec"
	"path/filepath"
	"regexp"
	"sort"
	"strings"
	"sync"
	"time"
)

type Engine struct {
	prog              *Program
	tt                *TypeTable
	addrTakenCache    map[*ast.FuncDecl]map[types.Object]bool
	fieldAddrCache    map[*ast.FuncDecl]map[types.Object][]string
	globals           map[*Pkg]*pkgGlobals
	baseSorts         map[string]string
	strictAppendFrame bool
	unroll            int
	knownObl          map[string]bool
	failDeadline      time.Time
	mu                sync.Mutex
	axiomErrs         map[string]string
	workDir           string
	tier              string
	timeoutS          int
	results           []*FnResult
}

type FnResult struct {
	Fn           string
	Pkg          string
	Contract     *FuncContract
	Obls         []*Obl
	Err          string
	Unsupported  string // non-empty: symbolic execution stopped at a construct outside the modelled subset
	Abstractions []string
	Assumed      []string
	Paths        int
	Ctx          *FnCtx
}

func (e *Engine) verifyFunc(p *Pkg, con *FuncContract) (res *FnResult) {
	res = &FnResult{Fn: p.Name + "." + con.Name, Pkg: p.Path, Contract: con}
	fd := p.funcs[con.Name]
	if fd == nil {
		res.Err = "contract drift: function not found"
		return res
	}
	if fd.Body == nil {
		res.Err = "function has no body"
		return res
	}
	fobj := p.Info.Defs[fd.Name].(*types.Func)
	sig := fobj.Type().(*types.Signature)
	c := &FnCtx{eng: e, prog: e.prog, tt: e.tt, pkg: p, fd: fd, fobj: fobj, con: con, fname: res.Fn,
		declSet: map[string]bool{}, heapSort: map[string]string{}, labelN: map[string]int{},
		abstractions: map[string]bool{}, assumedUsed: map[string]bool{}, paramTerms: map[string]string{},
		closures: map[types.Object]*closure{}, loopOrd: map[ast.Stmt]int{}, ufDecl: map[string]bool{},
		frameOn: con.Frame, safetyOn: con.Safety, revealed: map[string]bool{}, baseElem: map[string]types.Type{}, baseKeySort: map[string]string{}}
	for _, n := range con.Reveal {
		c.revealed[n] = true
	}
	res.Ctx = c
	for i, l := range loopsOf(fd.Body) {
		c.loopOrd[l] = i
	}
	c.fr = &frame{pkg: p, fd: fd, sig: sig, isTop: true}
	defer func() {
		if r := recover(); r != nil {
			if u, ok := r.(unsupported); ok {
				// The function can no longer be brought within the verifier's reach (a construct outside the
				// modelled subset): every obligation that was discharged for it on the unchanged tree is now
				// undischarged. Reported like contract drift: one failed obligation naming the reason.
				res.Unsupported = u.msg
				res.Obls = append(c.obls, &Obl{Name: res.Fn + "#unsupported", Kind: "drift", Prop: con.Primary, Fn: res.Fn,
					Goal: "false", Text: "function is outside the verified subset: " + u.msg})
				return
			}
			panic(r)
		}
	}()
	st := &State{vars: map[types.Object]*binding{}, heap: map[string]string{}, ghost: map[string]string{}}
	st.addDef(not(sel(c.alloc(st), "0")))
	// parameters
	names, resNames := c.paramNames(fobj)
	c.resultNames = resNames
	var pobjs []*types.Var
	if sig.Recv() != nil {
		pobjs = append(pobjs, sig.Recv())
	}
	for i := 0; i < sig.Params().Len(); i++ {
		pobjs = append(pobjs, sig.Params().At(i))
	}
	// parameter objects as seen by the body come from Defs of the declaration idents
	declObjs := paramDeclObjs(p, fd)
	for i, pv := range pobjs {
		t := c.fresh("p_"+names[i], c.tt.sortOf(pv.Type()))
		st.addFact(c.typeInv(st, t, pv.Type(), 0))
		c.paramTerms[names[i]] = t
		c.inputTerms = append(c.inputTerms, inputTerm{names[i], t, pv.Type()})
	}
	// closures bound once to a local: pre-scan
	c.scanClosures(fd)
	// assume requires
	for _, cl := range con.Requires {
		st.addFact(c.evalClause(cl, p, c.paramTerms, st))
	}
	for i := range pobjs {
		if i < len(declObjs) && declObjs[i] != nil {
			c.declareLocal(st, declObjs[i], c.paramTerms[names[i]])
		}
	}
	if fd.Type.Results != nil {
		for _, f := range fd.Type.Results.List {
			for _, nm := range f.Names {
				if obj := p.Info.Defs[nm]; obj != nil {
					c.declareLocal(st, obj, c.zero(obj.Type()))
					c.fr.results = append(c.fr.results, obj.(*types.Var))
				}
			}
		}
	}
	c.initLiteralGlobals(st, fd)
	c.entry = st.clone()
	c.oldState = c.entry
	// vacuity: the preconditions must be satisfiable
	c.unroll = e.unroll
	if len(con.Requires) > 0 && c.unroll == 0 {
		save := c.curProp
		c.curProp = "*"
		c.oblige(st, "vacuity", "requires.sat", "false", fd.Pos(), "requires satisfiable")
		c.curProp = save
	}
	o := c.execBlock(fd.Body.List, st)
	if o.normal != nil {
		var vals []string
		for _, rv := range c.fr.results {
			vals = append(vals, c.readVar(o.normal, rv, fd.End()))
		}
		c.retSite = "end"
		c.finishReturn(o.normal, vals, fd.End())
	}
	res.Obls = c.obls
	res.Paths = c.npaths
	for k := range c.abstractions {
		res.Abstractions = append(res.Abstractions, k)
	}
	sort.Strings(res.Abstractions)
	for k := range c.assumedUsed {
		res.Assumed = append(res.Assumed, k)
	}
	sort.Strings(res.Assumed)
	return res
}

func paramDeclObjs(p *Pkg, fd *ast.FuncDecl) []types.Object {
	var out []types.Object
	if fd.Recv != nil && len(fd.Recv.List) > 0 {
		if len(fd.Recv.List[0].Names) > 0 {
			out = append(out, p.Info.Defs[fd.Recv.List[0].Names[0]])
		} else {
			out = append(out, nil)
		}
	}
	for _, f := range fd.Type.Params.List {
		if len(f.Names) == 0 {
			out = append(out, nil)
			continue
		}
		for _, nm := range f.Names {
			out = append(out, p.Info.Defs[nm])
		}
	}
	return out
}

// scanClosures finds `name := func(...) {...}` bound exactly once.
func (c *FnCtx) scanClosures(fd *ast.FuncDecl) {
	info := c.pkg.Info
	counts := map[types.Object]int{}
	lits := map[types.Object]*ast.FuncLit{}
	ast.Inspect(fd.Body, func(n ast.Node) bool {
		as, ok := n.(*ast.AssignStmt)
		if !ok {
			return true
		}
		for i, l := range as.Lhs {
			id, ok := l.(*ast.Ident)
			if !ok || i >= len(as.Rhs) {
				continue
			}
			obj := info.Defs[id]
			if obj == nil {
				obj = info.Uses[id]
			}
			if obj == nil {
				continue
			}
			if _, isSig := obj.Type().Underlying().(*types.Signature); !isSig {
				continue
			}
			counts[obj]++
			if lit, ok := as.Rhs[i].(*ast.FuncLit); ok {
				lits[obj] = lit
			}
		}
		return true
	})
	for obj, lit := range lits {
		if counts[obj] == 1 {
			c.closures[obj] = &closure{lit: lit, fr: c.fr}
		}
	}
}

// verifyLemma checks a closed formula over spec functions.
func (e *Engine) verifyLemma(l *LemmaRef) (res *FnResult) {
	p := l.Pkg
	res = &FnResult{Fn: p.Name + ".lemma:" + l.C.Label, Pkg: p.Path}
	c := &FnCtx{eng: e, prog: e.prog, tt: e.tt, pkg: p, fname: res.Fn,
		declSet: map[string]bool{}, heapSort: map[string]string{}, labelN: map[string]int{},
		abstractions: map[string]bool{}, assumedUsed: map[string]bool{}, paramTerms: map[string]string{},
		closures: map[types.Object]*closure{}, loopOrd: map[ast.Stmt]int{}, ufDecl: map[string]bool{}, revealed: map[string]bool{}, baseElem: map[string]types.Type{}, baseKeySort: map[string]string{}}
	for _, n := range l.C.Reveal {
		c.revealed[n] = true
	}
	res.Ctx = c
	c.fr = &frame{pkg: p, isTop: true}
	defer func() {
		if r := recover(); r != nil {
			if u, ok := r.(unsupported); ok {
				res.Err = "unsupported: " + u.msg
				return
			}
			panic(r)
		}
	}()
	st := &State{vars: map[types.Object]*binding{}, heap: map[string]string{}, ghost: map[string]string{}}
	st.addDef(not(sel(c.alloc(st), "0")))
	c.entry = st.clone()
	c.oldState = c.entry
	for _, u := range l.C.Uses {
		found := false
		for _, o := range e.prog.Lemmas {
			if o.C.Label == u && o.Pkg == p {
				st.addFact(c.evalSynth(o.C.GoFn, p, map[string]string{}, st, false))
				found = true
			}
		}
		if !found {
			panic(unsupported{"lemma " + l.C.Label + " uses unknown lemma " + u})
		}
	}
	g := c.evalSynth(l.C.GoFn, p, map[string]string{}, st, false)
	c.curProp = l.C.Prop
	c.oblige(st, "lemma", "lemma", g, 0, l.C.Text)
	res.Obls = c.obls
	return res
}

// axiomsFor returns the global axioms (from `axiom` directives) as assertions.
func (e *Engine) axiomAsserts(c *FnCtx) []string {
	if c.axiomsDone {
		return c.axiomCache
	}
	c.axiomsDone = true
	var out []string
	for _, a := range e.prog.Axioms {
		if a.Pkg != c.pkg {
			dep := false
			if c.pkg.lp != nil {
				for _, imp := range c.pkg.lp.Imports {
					if imp.PkgPath == a.Pkg.Path {
						dep = true
					}
				}
			}
			if !dep {
				continue
			}
		}
		func() {
			defer func() {
				if r := recover(); r != nil {
					if u, ok := r.(unsupported); ok {
						e.mu.Lock()
						if e.axiomErrs == nil {
							e.axiomErrs = map[string]string{}
						}
						e.axiomErrs[a.C.Label] = u.msg
						e.mu.Unlock()
						return
					}
					panic(r)
				}
			}()
			st := &State{vars: map[types.Object]*binding{}, heap: map[string]string{}, ghost: map[string]string{}}
			g := c.evalSynth(a.C.GoFn, a.Pkg, map[string]string{}, st, false)
			out = append(out, "(assert "+g+")")
		}()
	}
	c.axiomCache = out
	return out
}

// ---------- SMT emission and solving ----------

func (e *Engine) smtFile(c *FnCtx, o *Obl, negate bool) string {
	var b strings.Builder
	b.WriteString(prelude)
	axioms := e.axiomAsserts(c) // may declare more symbols: evaluate before the declarations are written
	// only the datatypes this obligation mentions (directly or through another included datatype): the type table
	// is shared by all functions of a run and can hold hundreds of struct sorts
	var body strings.Builder
	for _, d := range c.decls {
		body.WriteString(d)
	}
	for _, a := range axioms {
		body.WriteString(a)
	}
	for _, h := range o.Hyps {
		body.WriteString(h.s)
	}
	body.WriteString(o.Goal)
	for _, d := range neededDatatypes(e.tt.dtDecls, body.String()) {
		b.WriteString(d + "\n")
	}
	for _, a := range e.tt.tidAxioms() {
		b.WriteString(a + "\n")
	}
	if c.usesReflect {
		b.WriteString(reflectPrelude)
		for _, a := range e.tt.reflectTidAxioms() {
			b.WriteString(a + "\n")
		}
	}
	for _, d := range c.decls {
		b.WriteString(d + "\n")
	}
	for _, a := range axioms {
		b.WriteString(a + "\n")
	}
	// axioms may have declared more symbols; emit late declarations
	seenH := map[string]bool{}
	for _, h := range o.Hyps {
		if seenH[h.s] {
			continue
		}
		seenH[h.s] = true
		b.WriteString("(assert " + h.s + ")\n")
	}
	if negate {
		b.WriteString("(assert (not " + o.Goal + "))\n")
	}
	b.WriteString("(check-sat)\n")
	return fixDeclOrder(b.String())
}

var declRe = regexp.MustCompile(`^\(declare-(const|fun|datatypes|sort) `)

// fixDeclOrder moves all declarations before the first assertion that is not an axiom over declared symbols.
func fixDeclOrder(s string) string {
	lines := strings.Split(s, "\n")
	var decls, rest []string
	seen := map[string]bool{}
	for _, l := range lines {
		if declRe.MatchString(l) || strings.HasPrefix(l, "(set-logic") || strings.HasPrefix(l, "(define-") || strings.HasPrefix(l, "  ") || strings.HasPrefix(l, "       ") {
			if declRe.MatchString(l) {
				if seen[l] {
					continue
				}
				seen[l] = true
			}
			decls = append(decls, l)
		} else {
			rest = append(rest, l)
		}
	}
	return strings.Join(decls, "\n") + "\n" + strings.Join(rest, "\n")
}

type solverRes struct {
	solver string
	status string // unsat | sat | unknown | timeout | error
	out    string
	dur    time.Duration
}

func runSolver(name, file string, timeoutS int) solverRes {
	return runSolverCtx(context.Background(), name, file, timeoutS)
}

// solverSlots bounds the number of solver processes that run at the same time to the number of cores: a portfolio
// of seven solvers for each of sixteen obligations would otherwise oversubscribe the machine several times and
// turn two-second proofs into timeouts. A solver's timeout starts when it gets its slot.
var solverSlots = make(chan struct{}, runtime.NumCPU())

func runSolverCtx(parent context.Context, name, file string, timeoutS int) solverRes {
	select {
	case solverSlots <- struct{}{}:
		defer func() { <-solverSlots }()
	case <-parent.Done():
		return solverRes{solver: name, status: "cancelled"}
	}
	var cmd *exec.Cmd
	ctx, cancel := context.WithTimeout(parent, time.Duration(timeoutS+2)*time.Second)
	defer cancel()
	T := fmt.Sprintf("-T:%d", timeoutS)
	switch name {
	case "z3-new":
		cmd = exec.CommandContext(ctx, "z3-new", T, file)
	case "z3":
		cmd = exec.CommandContext(ctx, "z3", T, file)
	case "z3-new-em":
		cmd = exec.CommandContext(ctx, "z3-new", T, "smt.mbqi=false", "smt.auto_config=false", file)
	case "z3-new-a2":
		cmd = exec.CommandContext(ctx, "z3-new", T, "smt.arith.solver=2", file)
	case "z3-new-eager":
		cmd = exec.CommandContext(ctx, "z3-new", T, "smt.qi.eager_threshold=100", file)
	case "z3-new-seed":
		cmd = exec.CommandContext(ctx, "z3-new", T, "smt.random_seed=7", "sat.random_seed=7", "smt.arith.solver=6", file)
	case "cvc5":
		cmd = exec.CommandContext(ctx, "cvc5", "--strings-exp", fmt.Sprintf("--tlimit=%d", timeoutS*1000), file)
	case "cvc5-enum":
		// enumerative instantiation: decides some forall-exists goals over datatype-keyed arrays at once where E-matching loops
		cmd = exec.CommandContext(ctx, "cvc5", "--strings-exp", "--enum-inst", fmt.Sprintf("--tlimit=%d", timeoutS*1000), file)
	}
	t0 := time.Now()
	out, _ := cmd.CombinedOutput()
	d := time.Since(t0)
	first := strings.TrimSpace(strings.SplitN(string(out), "\n", 2)[0])
	st := "unknown"
	switch {
	case first == "unsat":
		st = "unsat"
	case first == "sat":
		st = "sat"
	case parent.Err() != nil:
		st = "cancelled"
	case first == "timeout" || ctx.Err() != nil:
		st = "timeout"
	case strings.HasPrefix(first, "(error") || strings.Contains(first, "rror"):
		st = "error"
	}
	return solverRes{name, st, string(out), d}
}

func writeFile(path, content string) { os.WriteFile(path, []byte(content), 0o644) }

func sanitizeFile(s string) string {
	s = strings.NewReplacer("/", "_", ":", "_", "=", "eq", " ", "_", "[", "(", "]", ")", "*", "x", "\"", "", "'", "", "&", "and", "|", "or", "<", "lt", ">", "gt", "!", "not", "$", "S", "`", "", "\\", "", ";", "", "{", "", "}", "", "?", "", "#", "-").Replace(s)
	if len(s) > 150 {
		s = s[:150]
	}
	return s
}

func (e *Engine) solveAll(rs []*FnResult) {
	type job struct {
		c *FnCtx
		o *Obl
	}
	var jobs []job
	for _, r := range rs {
		for _, o := range r.Obls {
			jobs = append(jobs, job{r.Ctx, o})
		}
	}
	// smtFile evaluates axioms through the ctx (not goroutine-safe): pre-render sequentially is costly; guard with a mutex per ctx.
	var mu sync.Mutex
	files := make([]string, len(jobs))
	for i, j := range jobs {
		mu.Lock()
		files[i] = e.smtFile(j.c, j.o, true)
		mu.Unlock()
	}
	sem := make(chan struct{}, 16)
	var wg sync.WaitGroup
	for i, j := range jobs {
		wg.Add(1)
		sem <- struct{}{}
		go func(i int, j job) {
			defer wg.Done()
			defer func() { <-sem }()
			e.solvePrepared(j.c, j.o, files[i])
		}(i, j)
	}
	wg.Wait()
}

func (e *Engine) solvePrepared(c *FnCtx, o *Obl, content string) {
	dir := filepath.Join(e.workDir, sanitize(o.Fn))
	os.MkdirAll(dir, 0o755)
	file := filepath.Join(dir, sanitizeFile(o.Name)+".smt2")
	os.WriteFile(file, []byte(content), 0o644)
	e.solveFile(o, file)
}

func (e *Engine) solveFile(o *Obl, file string) {
	t0 := time.Now()
	finish := func(status, solver, detail string) {
		o.Status, o.Solver, o.Detail = status, solver, detail
		o.TimeS = time.Since(t0).Seconds()
	}
	vac := o.Kind == "vacuity" || o.Kind == "reach"
	if o.Kind == "drift" && o.Goal == "false" && strings.HasSuffix(o.Name, "#unsupported") {
		finish("failed", "none", "not a solver result: the function left the verified subset")
		return
	}
	decide := func(r solverRes) bool {
		switch r.status {
		case "unsat":
			if vac {
				finish("failed", r.solver, "assumptions are contradictory (unsat)")
			} else {
				finish("discharged", r.solver, "")
			}
			return true
		case "sat":
			if vac {
				finish("discharged", r.solver, "")
			} else {
				finish("failed", r.solver, "sat")
			}
			return true
		}
		return false
	}
	if e.tier == "thorough" && !vac {
		var wg sync.WaitGroup
		// thorough: every solver configuration is asked and all answers are collected (a sat / unsat disagreement is
		// a failure), each with a moderate timeout; if none decides, the obligation goes through the racing portfolio
		// below with the tier's long timeout
		names := []string{"z3-new", "z3", "cvc5", "z3-new-a2", "z3-new-eager", "z3-new-em", "cvc5-enum"}
		rs := make([]solverRes, len(names))
		agreeT := e.timeoutS / 3
		if agreeT < 10 {
			agreeT = 10
		}
		for i, s := range names {
			wg.Add(1)
			go func(i int, s string) { defer wg.Done(); rs[i] = runSolver(s, file, agreeT) }(i, s)
		}
		wg.Wait()
		var sats, unsats, all []string
		for _, r := range rs {
			all = append(all, r.solver+":"+r.status)
			if r.status == "sat" {
				sats = append(sats, r.solver)
			}
			if r.status == "unsat" {
				unsats = append(unsats, r.solver)
			}
		}
		switch {
		case len(sats) > 0 && len(unsats) > 0:
			finish("failed", strings.Join(sats, "+"), "solver disagreement: sat by "+strings.Join(sats, ",")+" unsat by "+strings.Join(unsats, ","))
		case len(sats) > 0:
			finish("failed", strings.Join(sats, "+"), "sat")
		case len(unsats) > 0:
			finish("discharged", strings.Join(unsats, "+"), "")
		}
		if len(sats)+len(unsats) > 0 {
			return
		}
	}
	r := runSolver("z3-new", file, 4)
	if decide(r) {
		return
	}
	if vac && !o.DeclaredUnreachable {
		// a contradiction would have shown up as a quick unsat; undecided satisfiability is accepted.
		// (A return site the contract declares unreachable goes through the whole portfolio instead: on a loaded
		// machine the quick probe can time out, and "undecided" must not be read as "reachable".)
		finish("discharged", "", "undecided (z3-new:"+r.status+")")
		return
	}
	names := []string{"z3-new", "z3", "cvc5", "z3-new-a2", "z3-new-eager", "z3-new-em", "cvc5-enum"}
	ch := make(chan solverRes, len(names))
	ctx, cancel := context.WithCancel(context.Background())
	defer cancel()
	for _, s := range names {
		go func(s string) { ch <- runSolverCtx(ctx, s, file, e.timeoutS) }(s)
	}
	var details []string
	for i := 0; i < len(names); i++ {
		r2 := <-ch
		if decide(r2) {
			return
		}
		details = append(details, r2.solver+":"+r2.status)
	}
	if vac {
		finish("discharged", "", "undecided ("+strings.Join(details, " ")+")")
		return
	}
	// last resort: drop the quantified hypotheses (a weaker hypothesis set). unsat still discharges; sat gives a
	// candidate counterexample that only a replay on the real code can confirm.
	if b, err := os.ReadFile(file); err == nil {
		var keep []string
		for _, l := range strings.Split(string(b), "\n") {
			if strings.HasPrefix(l, "(assert (forall ") || strings.HasPrefix(l, "(assert (exists ") {
				continue
			}
			keep = append(keep, l)
		}
		qf := strings.TrimSuffix(file, ".smt2") + ".qf.smt2"
		os.WriteFile(qf, []byte(strings.Join(keep, "\n")), 0o644)
		r3 := runSolver("z3-new", qf, 6)
		switch r3.status {
		case "unsat":
			finish("discharged", "z3-new(qf)", "")
			return
		case "sat":
			o.Model = qf
			finish("failed", "z3-new(qf)", "sat (candidate model after dropping quantified hypotheses; "+strings.Join(details, " ")+")")
			return
		}
	}
	finish("unknown", "", strings.Join(details, " "))
}
