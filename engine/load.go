package main

import (
	"regexp"
	"fmt"
	"go/ast"
	"go/parser"
	"go/token"
	"go/types"
	"os"
	"path/filepath"
	"sort"
	"strings"

	"golang.org/x/tools/go/packages"
)

// Pkg is a (re-)type-checked package.
type Pkg struct {
	Path  string
	Name  string
	Dir   string
	Types *types.Package
	Info  *types.Info
	Files []*ast.File
	Spec  []*SpecFile
	Synth *ast.File
	lp    *packages.Package
	funcs map[string]*ast.FuncDecl // contract-style name -> decl
}

type Program struct {
	Fset     *token.FileSet
	Pkgs     map[string]*Pkg // by path
	Order    []string
	Contracts map[string]*FuncContract // full name (pkgpath.name) -> contract
	SpecFns  map[string]*SpecFunc     // pkgpath.name
	Lemmas   []*LemmaRef
	Axioms   []*LemmaRef
	RepoDir  string
	SynthSrc map[string]string
}

type LemmaRef struct {
	Pkg *Pkg
	C   *Clause
}

// toleratedSeen: generated package -> number of tolerated type errors (reported in the evidence).
var toleratedSeen = map[string]int{}

type LoadOpts struct {
	RepoDir   string
	Patterns  []string
	ExtSpecs  []string          // spec files for non-repo packages (//@ package path)
	Overlay   map[string][]byte // extra overlay
	ExtraDirs map[string]string // package path -> dir (generated code)
	Dir       string            // load dir override
}

func funcKey(fd *ast.FuncDecl) string {
	if fd.Recv == nil || len(fd.Recv.List) == 0 {
		return fd.Name.Name
	}
	t := fd.Recv.List[0].Type
	star := ""
	if s, ok := t.(*ast.StarExpr); ok {
		star = "*"
		t = s.X
	}
	if ix, ok := t.(*ast.IndexExpr); ok {
		t = ix.X
	}
	id, _ := t.(*ast.Ident)
	if id == nil {
		return fd.Name.Name
	}
	return "(" + star + id.Name + ")." + fd.Name.Name
}

func loadProgram(o LoadOpts) (*Program, error) {
	dir := o.Dir
	if dir == "" {
		dir = o.RepoDir
	}
	cfg := &packages.Config{
		Mode: packages.NeedName | packages.NeedFiles | packages.NeedSyntax | packages.NeedTypes | packages.NeedTypesInfo |
			packages.NeedImports | packages.NeedDeps | packages.NeedModule | packages.NeedCompiledGoFiles,
		Dir:        dir,
		BuildFlags: []string{"-tags=verif", "-mod=mod"},
		Env:        append(os.Environ(), "GOFLAGS=-mod=mod", "GOPROXY=off", "GOSUMDB=off", "GOTOOLCHAIN=local"),
		Overlay:    o.Overlay,
	}
	lps, err := packages.Load(cfg, o.Patterns...)
	if err != nil {
		return nil, err
	}
	var errs []string
	all := map[string]*packages.Package{}
	var post []*packages.Package
	packages.Visit(lps, nil, func(p *packages.Package) {
		all[p.PkgPath] = p
		post = append(post, p) // post-order: deps first
		for _, e := range p.Errors {
			if toleratedErr(p.PkgPath, e.Error()) {
				toleratedSeen[p.PkgPath]++
				continue
			}
			if strings.HasPrefix(p.PkgPath, "github.com/openconfig/ygot") || isRoot(lps, p) {
				errs = append(errs, e.Error())
			}
		}
	})
	if len(errs) > 0 {
		return nil, fmt.Errorf("load errors: %s", strings.Join(errs, "\n"))
	}
	prog := &Program{Pkgs: map[string]*Pkg{}, Contracts: map[string]*FuncContract{}, SpecFns: map[string]*SpecFunc{}, RepoDir: o.RepoDir, SynthSrc: map[string]string{}}
	if len(lps) > 0 {
		prog.Fset = lps[0].Fset
	}
	// spec files: in-package zz_contracts_verif.go, plus ext specs.
	specsByPkg := map[string][]*SpecFile{}
	for path, lp := range all {
		for _, f := range lp.CompiledGoFiles {
			if filepath.Base(f) == "zz_contracts_verif.go" {
				var sf *SpecFile
				var err error
				if src, ok := o.Overlay[f]; ok {
					sf, err = parseSpecSource(f, src)
				} else {
					sf, err = parseSpecFile(f)
				}
				if err != nil {
					return nil, err
				}
				sf.PkgPath = path
				specsByPkg[path] = append(specsByPkg[path], sf)
			}
		}
	}
	for _, f := range o.ExtSpecs {
		sf, err := parseSpecFile(f)
		if err != nil {
			return nil, err
		}
		pp := ""
		for _, im := range sf.Imports {
			if im[0] == "package" {
				pp = im[1]
			}
		}
		if pp == "" {
			return nil, fmt.Errorf("%s: ext spec needs '//@ import package \"path\"'", f)
		}
		if all[pp] == nil {
			continue // package not loaded in this run
		}
		sf.PkgPath = pp
		specsByPkg[pp] = append(specsByPkg[pp], sf)
	}
	// R = packages depending (transitively) on a package with specs
	need := map[string]bool{}
	for _, lp := range post { // deps first
		if len(specsByPkg[lp.PkgPath]) > 0 {
			need[lp.PkgPath] = true
			continue
		}
		for _, imp := range lp.Imports {
			if need[imp.PkgPath] {
				need[lp.PkgPath] = true
				break
			}
		}
	}
	rechecked := map[string]*types.Package{}
	for _, lp := range post {
		p := &Pkg{Path: lp.PkgPath, Name: lp.Name, Types: lp.Types, Info: lp.TypesInfo, Files: lp.Syntax, lp: lp, Spec: specsByPkg[lp.PkgPath]}
		if len(lp.GoFiles) > 0 {
			p.Dir = filepath.Dir(lp.GoFiles[0])
		}
		prog.Pkgs[lp.PkgPath] = p
		prog.Order = append(prog.Order, lp.PkgPath)
		if !need[lp.PkgPath] {
			continue
		}
		files := lp.Syntax
		if len(p.Spec) > 0 {
			p.indexFuncs()
			src, err := genSynth(prog, p)
			if err != nil {
				return nil, err
			}
			prog.SynthSrc[p.Path] = src
			sf, err := parser.ParseFile(prog.Fset, filepath.Join(p.Dir, "zz_verif_synth.go"), src, parser.ParseComments)
			if err != nil {
				os.WriteFile("/tmp/verif_synth_err.go", []byte(src), 0o644)
				return nil, fmt.Errorf("synthetic spec file for %s does not parse (see /tmp/verif_synth_err.go): %v", p.Path, err)
			}
			p.Synth = sf
			files = append(append([]*ast.File{}, lp.Syntax...), sf)
		}
		info := &types.Info{
			Types: map[ast.Expr]types.TypeAndValue{}, Defs: map[*ast.Ident]types.Object{}, Uses: map[*ast.Ident]types.Object{},
			Implicits: map[ast.Node]types.Object{}, Selections: map[*ast.SelectorExpr]*types.Selection{}, Scopes: map[ast.Node]*types.Scope{},
			Instances: map[*ast.Ident]types.Instance{},
		}
		var terrs []string
		lpc := lp
		tc := &types.Config{
			Importer: importerFunc(func(path string) (*types.Package, error) {
				if path == "unsafe" {
					return types.Unsafe, nil
				}
				ip := lpc.Imports[path]
				if ip == nil {
					return nil, fmt.Errorf("import %q not found", path)
				}
				if rp, ok := rechecked[ip.PkgPath]; ok {
					return rp, nil
				}
				return ip.Types, nil
			}),
			Sizes: types.SizesFor("gc", "amd64"),
			Error: func(err error) { terrs = append(terrs, err.Error()) },
		}
		tp, _ := tc.Check(lp.PkgPath, prog.Fset, files, info)
		{
			var keep []string
			for _, m := range terrs {
				if !toleratedErr(lp.PkgPath, m) {
					keep = append(keep, m)
				}
			}
			terrs = keep
		}
		if len(terrs) > 0 {
			if p.Synth != nil {
				os.WriteFile("/tmp/verif_synth_err.go", []byte(prog.SynthSrc[p.Path]), 0o644)
			}
			if len(terrs) > 12 {
				terrs = terrs[:12]
			}
			return nil, fmt.Errorf("type errors re-checking %s (contract drift or spec error; synthetic file in /tmp/verif_synth_err.go):\n  %s", lp.PkgPath, strings.Join(terrs, "\n  "))
		}
		rechecked[lp.PkgPath] = tp
		p.Types = tp
		p.Info = info
		p.Files = files
	}
	for _, p := range prog.Pkgs {
		p.indexFuncs()
		for _, sf := range p.Spec {
			for _, c := range sf.Contracts {
				c.Pkg = p.Path
				key := p.Path + "." + c.Name
				if old, ok := prog.Contracts[key]; ok {
					// merge (same function under several property tags / files)
					old.Requires = append(old.Requires, c.Requires...)
					old.Ensures = append(old.Ensures, c.Ensures...)
					old.Modifies = append(old.Modifies, c.Modifies...)
					old.ModGiven = old.ModGiven || c.ModGiven
					for n, l := range c.Loops {
						old.Loops[n] = append(old.Loops[n], l...)
					}
					for k := range c.Props {
						old.Props[k] = true
					}
					continue
				}
				prog.Contracts[key] = c
			}
			for _, fn := range sf.Funcs {
				prog.SpecFns[p.Path+"."+fn.Name] = fn
			}
			for _, l := range sf.Lemmas {
				prog.Lemmas = append(prog.Lemmas, &LemmaRef{p, l})
			}
			for _, l := range sf.Axioms {
				prog.Axioms = append(prog.Axioms, &LemmaRef{p, l})
			}
		}
	}
	// prog.Pkgs is a map: fix the order of lemmas and axioms, which is the order of the assertions in every SMT
	// file (solvers are sensitive to it; a run-to-run difference made one obligation flaky)
	byPos := func(xs []*LemmaRef) {
		sort.SliceStable(xs, func(i, j int) bool {
			a, b := xs[i], xs[j]
			if a.Pkg.Path != b.Pkg.Path {
				return a.Pkg.Path < b.Pkg.Path
			}
			if a.C.File != b.C.File {
				return a.C.File < b.C.File
			}
			return a.C.Line < b.C.Line
		})
	}
	byPos(prog.Lemmas)
	byPos(prog.Axioms)
	return prog, nil
}

func isRoot(roots []*packages.Package, p *packages.Package) bool {
	for _, r := range roots {
		if r == p {
			return true
		}
	}
	return false
}

type importerFunc func(path string) (*types.Package, error)

func (f importerFunc) Import(path string) (*types.Package, error) { return f(path) }

func (p *Pkg) indexFuncs() {
	p.funcs = map[string]*ast.FuncDecl{}
	for _, f := range p.Files {
		for _, d := range f.Decls {
			if fd, ok := d.(*ast.FuncDecl); ok {
				p.funcs[funcKey(fd)] = fd
			}
		}
	}
}

// loopsOf returns the loops of a function body in pre-order.
func loopsOf(body ast.Node) []ast.Stmt {
	var out []ast.Stmt
	if body == nil {
		return nil
	}
	ast.Inspect(body, func(n ast.Node) bool {
		switch n.(type) {
		case *ast.ForStmt, *ast.RangeStmt:
			out = append(out, n.(ast.Stmt))
		}
		return true
	})
	return out
}

// ---------- synthetic file generation ----------

type synthGen struct {
	prog    *Program
	p       *Pkg
	imports map[string]string // path -> alias
	b       strings.Builder
	n       int
}

func (g *synthGen) qual(tp *types.Package) string {
	if tp.Path() == g.p.Path {
		return ""
	}
	if a, ok := g.imports[tp.Path()]; ok {
		return a
	}
	a := "q_" + sanitize(strings.ReplaceAll(tp.Path(), "/", "_"))
	a = strings.ReplaceAll(a, ".", "_")
	g.imports[tp.Path()] = a
	return a
}

func (g *synthGen) typeStr(t types.Type) string {
	return types.TypeString(t, g.qual)
}

func genSynth(prog *Program, p *Pkg) (string, error) {
	g := &synthGen{prog: prog, p: p, imports: map[string]string{}}
	for _, sf := range p.Spec {
		for _, im := range sf.Imports {
			if im[0] == "package" {
				continue
			}
			g.imports[im[1]] = im[0]
		}
	}
	var body strings.Builder
	body.WriteString(synthPrelude)
	for _, sf := range p.Spec {
		for _, td := range sf.Types {
			fmt.Fprintf(&body, "type %s\n", td)
		}
		for _, gh := range sf.Ghosts {
			fmt.Fprintf(&body, "var %s %s\n", gh[0], gh[1])
		}
		for _, fn := range sf.Funcs {
			if fn.UF {
				fmt.Fprintf(&body, "func %s(%s) %s { panic(\"uf\") }\n", fn.Name, fn.Params, fn.Ret)
			} else {
				fmt.Fprintf(&body, "func %s(%s) %s { return %s }\n", fn.Name, fn.Params, fn.Ret, fn.Body)
			}
		}
		for _, l := range append(append([]*Clause{}, sf.Lemmas...), sf.Axioms...) {
			g.n++
			l.GoFn = fmt.Sprintf("V_l_%d", g.n)
			fmt.Fprintf(&body, "func %s() bool { return %s }\n", l.GoFn, l.GoExpr)
		}
		for _, c := range sf.Contracts {
			fd := p.funcs[c.Name]
			if fd == nil && c.Primary == "SWEEP" {
				// exploration sweep (tools/sweepgen.py lists functions textually): not a function of this build
				c.Assumed = true
				continue
			}
			var fobj *types.Func
			if fd == nil && c.Assumed {
				// an assumed contract on an interface method, `(I).m`: there is no declaration with a body; the
				// receiver is called recv in the clauses
				if m := regexp.MustCompile(`^\((\w+)\)\.(\w+)$`).FindStringSubmatch(c.Name); m != nil {
					if tn, ok := p.Types.Scope().Lookup(m[1]).(*types.TypeName); ok {
						if it, ok := tn.Type().Underlying().(*types.Interface); ok {
							for i := 0; i < it.NumMethods(); i++ {
								if it.Method(i).Name() == m[2] {
									fobj = it.Method(i)
								}
							}
						}
					}
				}
			}
			if fd == nil && fobj == nil {
				return "", &DriftError{Func: p.Path + "." + c.Name, Msg: "function not found"}
			}
			if fobj == nil {
				fobj, _ = p.Info.Defs[fd.Name].(*types.Func)
			}
			if fobj == nil {
				return "", fmt.Errorf("no type info for %s", c.Name)
			}
			sig := fobj.Type().(*types.Signature)
			var ps []string
			var names []string
			addParam := func(v *types.Var, dflt string) {
				n := v.Name()
				if n == "" || n == "_" {
					n = dflt
				}
				ps = append(ps, n+" "+g.typeStr(v.Type()))
				names = append(names, n)
			}
			if sig.Recv() != nil {
				addParam(sig.Recv(), "recv")
			}
			for i := 0; i < sig.Params().Len(); i++ {
				addParam(sig.Params().At(i), fmt.Sprintf("p%d", i))
			}
			reqParams := append([]string{}, ps...)
			reqNames := append([]string{}, names...)
			for i := 0; i < sig.Results().Len(); i++ {
				d := "result"
				if sig.Results().Len() > 1 {
					d = fmt.Sprintf("result%d", i)
				}
				addParam(sig.Results().At(i), d)
			}
			for _, cl := range c.Requires {
				g.n++
				cl.GoFn = fmt.Sprintf("V_c_%d", g.n)
				cl.Params = reqNames
				fmt.Fprintf(&body, "func %s(%s) bool { return %s }\n", cl.GoFn, strings.Join(reqParams, ", "), cl.GoExpr)
			}
			for _, cl := range c.Ensures {
				g.n++
				cl.GoFn = fmt.Sprintf("V_c_%d", g.n)
				cl.Params = names
				fmt.Fprintf(&body, "func %s(%s) bool { return %s }\n", cl.GoFn, strings.Join(ps, ", "), cl.GoExpr)
			}
			for _, m := range append(append([]*ModLoc{}, c.Modifies...), c.Records...) {
				if m.Kind == "ghost" {
					continue
				}
				g.n++
				m.GoFn = fmt.Sprintf("V_m_%d", g.n)
				m.Params = reqNames
				fmt.Fprintf(&body, "func %s(%s) any { return %s }\n", m.GoFn, strings.Join(reqParams, ", "), m.Text)
			}
			if fd == nil {
				continue // interface method: no body, no loops
			}
			loops := loopsOf(fd.Body)
			if c.Frame && !c.Assumed && c.Mode != "opaque" && fd.Body != nil {
				// automatic loop invariants (checked like written ones): a local slice that is only ever built by
				// append / make / literals is the function's own accumulator - nil or freshly allocated
				for i, loop := range loops {
					for _, nm := range ownedAccumulators(p, fd, loop) {
						ge, err := translateSpecExpr("elemsfresh(" + nm + ")")
						if err != nil {
							continue
						}
						pr := c.FrameProp
						if pr == "" {
							pr = c.Primary
						}
						c.Loops[i] = append(c.Loops[i], &Clause{Kind: "invariant", Prop: pr, Text: "elemsfresh(" + nm + ")  (automatic: local accumulator)", GoExpr: ge, Loop: i, File: c.File, Line: c.Line})
					}
				}
			}
			var lns []int
			for n := range c.Loops {
				lns = append(lns, n)
			}
			sort.Ints(lns)
			for _, n := range lns {
				if n >= len(loops) {
					for _, cl := range c.Loops[n] {
						cl.Unbound = fmt.Sprintf("loop %d not found (function has %d loops)", n, len(loops))
					}
					continue
				}
				loop := loops[n]
				for _, cl := range c.Loops[n] {
					lps, lnames, err := g.freeLocals(cl.GoExpr, loop, fd)
					if err != nil {
						// the clause no longer binds to the code (contract drift): reported as a failed obligation
						cl.Unbound = err.Error()
						continue
					}
					g.n++
					cl.GoFn = fmt.Sprintf("V_c_%d", g.n)
					cl.Params = lnames
					fmt.Fprintf(&body, "func %s(%s) bool { return %s }\n", cl.GoFn, strings.Join(lps, ", "), cl.GoExpr)
				}
			}
		}
	}
	var out strings.Builder
	fmt.Fprintf(&out, "package %s\n\n", p.Name)
	var ips []string
	for path := range g.imports {
		ips = append(ips, path)
	}
	sort.Strings(ips)
	bs := body.String()
	for _, path := range ips {
		a := g.imports[path]
		if !strings.Contains(bs, a+".") && !strings.Contains(bs, a+" .") {
			continue
		}
		fmt.Fprintf(&out, "import %s %q\n", a, path)
	}
	out.WriteString(bs)
	return out.String(), nil
}

// enclosingMapRange returns the map type ranged over by the innermost map-range loop that encloses loop.
func enclosingMapRange(info *types.Info, fd *ast.FuncDecl, loop ast.Stmt) *types.Map {
	var stack []ast.Node
	var found *types.Map
	ast.Inspect(fd.Body, func(n ast.Node) bool {
		if n == nil {
			stack = stack[:len(stack)-1]
			return true
		}
		if n == ast.Node(loop) {
			for i := len(stack) - 1; i >= 0; i-- {
				if rs, ok := stack[i].(*ast.RangeStmt); ok {
					if mt, ok := info.TypeOf(rs.X).Underlying().(*types.Map); ok {
						found = mt
						break
					}
				}
			}
		}
		stack = append(stack, n)
		return true
	})
	return found
}

func (g *synthGen) knownSpecName(n string) bool {
	if strings.HasPrefix(n, "V_") {
		return true
	}
	for _, sf := range g.p.Spec {
		for _, f := range sf.Funcs {
			if f.Name == n {
				return true
			}
		}
		for _, gh := range sf.Ghosts {
			if gh[0] == n {
				return true
			}
		}
	}
	for _, a := range g.imports {
		if a == n {
			return true
		}
	}
	return false
}

func isParamOf(p *Pkg, fd *ast.FuncDecl, v *types.Var) bool {
	for _, o := range paramDeclObjs(p, fd) {
		if o == v {
			return true
		}
	}
	return false
}

type DriftError struct {
	Func string
	Msg  string
}

func (d *DriftError) Error() string { return "contract drift: " + d.Func + ": " + d.Msg }

// freeLocals finds the identifiers of expr that denote locals visible at loop.
func (g *synthGen) freeLocals(goExpr string, loop ast.Stmt, fd *ast.FuncDecl) (params []string, names []string, err error) {
	e, perr := parser.ParseExpr(goExpr)
	if perr != nil {
		return nil, nil, fmt.Errorf("invariant does not parse: %v (%s)", perr, goExpr)
	}
	info := g.p.Info
	scope := info.Scopes[loop]
	if scope == nil {
		return nil, nil, fmt.Errorf("no scope for loop")
	}
	var bodyPos token.Pos
	var rangeX ast.Expr
	switch l := loop.(type) {
	case *ast.ForStmt:
		bodyPos = l.Body.Lbrace
	case *ast.RangeStmt:
		bodyPos = l.Body.Lbrace
		rangeX = l.X
	}
	bound := map[string]int{}
	seen := map[string]bool{}
	var walk func(n ast.Node)
	walk = func(n ast.Node) {
		switch x := n.(type) {
		case nil:
			return
		case *ast.FuncLit:
			for _, f := range x.Type.Params.List {
				for _, nm := range f.Names {
					bound[nm.Name]++
				}
				walk(f.Type)
			}
			walk(x.Body)
			for _, f := range x.Type.Params.List {
				for _, nm := range f.Names {
					bound[nm.Name]--
				}
			}
			return
		case *ast.SelectorExpr:
			walk(x.X)
			return
		case *ast.KeyValueExpr:
			walk(x.Value)
			return
		case *ast.Ident:
			if bound[x.Name] > 0 || seen[x.Name] {
				return
			}
			if x.Name == "visited" || x.Name == "idx" || x.Name == "ranged" || x.Name == "outeridx" {
				if _, obj := scope.LookupParent(x.Name, bodyPos); obj == nil {
					seen[x.Name] = true
					if x.Name == "idx" {
						params = append(params, "idx int")
					} else if x.Name == "outeridx" {
						// iteration count of the enclosing range loop
						params = append(params, "outeridx int")
					} else if x.Name == "ranged" {
						// the value of the range operand (evaluated once, before the first iteration)
						if rangeX == nil {
							err = fmt.Errorf("'ranged' used on a non-range loop")
							return
						}
						params = append(params, "ranged "+g.typeStr(info.TypeOf(rangeX)))
					} else {
						var mt *types.Map
						if rangeX != nil {
							mt, _ = info.TypeOf(rangeX).Underlying().(*types.Map)
						}
						if mt == nil {
							// a loop nested in a map range may speak about the enclosing loop's visited set
							mt = enclosingMapRange(info, fd, loop)
						}
						if mt == nil {
							err = fmt.Errorf("'visited' used on a loop that is neither a map range nor nested in one")
							return
						}
						params = append(params, "visited V_Set["+g.typeStr(mt.Key())+"]")
					}
					names = append(names, x.Name)
					return
				}
			}
			_, obj := scope.LookupParent(x.Name, bodyPos)
			if obj == nil && !g.knownSpecName(x.Name) && !strings.HasSuffix(x.Name, "0") {
				err = fmt.Errorf("identifier %s of the invariant does not resolve at the loop", x.Name)
				return
			}
			if obj == nil && strings.HasSuffix(x.Name, "0") {
				// entry value of a parameter: <param>0
				if _, po := scope.LookupParent(strings.TrimSuffix(x.Name, "0"), bodyPos); po != nil {
					if pv, ok := po.(*types.Var); ok && isParamOf(g.p, fd, pv) {
						seen[x.Name] = true
						params = append(params, x.Name+" "+g.typeStr(pv.Type()))
						names = append(names, x.Name)
						return
					}
				}
			}
			if obj == nil {
				return
			}
			v, ok := obj.(*types.Var)
			if !ok {
				return
			}
			if v.Parent() == nil || v.Parent() == g.p.Types.Scope() || v.Parent() == types.Universe {
				return
			}
			seen[x.Name] = true
			params = append(params, x.Name+" "+g.typeStr(v.Type()))
			names = append(names, x.Name)
			return
		}
		ast.Inspect(n, func(c ast.Node) bool {
			if c == n {
				return true
			}
			if c != nil {
				walk(c)
			}
			return false
		})
	}
	walk(e)
	return
}

// ownedAccumulators: names of local slice variables, declared before the loop, that the loop body extends with
// x = append(x, ...) and whose every assignment in the function is an append to itself, nil, make or a literal.
func ownedAccumulators(p *Pkg, fd *ast.FuncDecl, loop ast.Stmt) []string {
	objOf := func(e ast.Expr) types.Object {
		id, ok := unparen(e).(*ast.Ident)
		if !ok {
			return nil
		}
		if o := p.Info.Uses[id]; o != nil {
			return o
		}
		return p.Info.Defs[id]
	}
	isSelfAppend := func(o types.Object, rhs ast.Expr) bool {
		call, ok := unparen(rhs).(*ast.CallExpr)
		if !ok || len(call.Args) == 0 {
			return false
		}
		id, ok := unparen(call.Fun).(*ast.Ident)
		if !ok || id.Name != "append" {
			return false
		}
		if _, isBuiltin := p.Info.Uses[id].(*types.Builtin); !isBuiltin {
			return false
		}
		return objOf(call.Args[0]) == o
	}
	cands := map[types.Object]bool{}
	var body ast.Node
	switch l := loop.(type) {
	case *ast.ForStmt:
		body = l.Body
	case *ast.RangeStmt:
		body = l.Body
	}
	ast.Inspect(body, func(n ast.Node) bool {
		as, ok := n.(*ast.AssignStmt)
		if !ok || len(as.Lhs) != len(as.Rhs) {
			return true
		}
		for i, l := range as.Lhs {
			o := objOf(l)
			v, isVar := o.(*types.Var)
			if !isVar || v.IsField() || o.Pos() < fd.Body.Pos() || o.Pos() > fd.Body.End() || o.Pos() >= loop.Pos() {
				continue
			}
			if _, isSlice := v.Type().Underlying().(*types.Slice); isSlice && isSelfAppend(o, as.Rhs[i]) {
				cands[o] = true
			}
		}
		return true
	})
	if len(cands) == 0 {
		return nil
	}
	okRHS := func(o types.Object, rhs ast.Expr) bool {
		if isSelfAppend(o, rhs) {
			return true
		}
		switch r := unparen(rhs).(type) {
		case *ast.Ident:
			return r.Name == "nil"
		case *ast.CompositeLit:
			return true
		case *ast.CallExpr:
			if id, ok := unparen(r.Fun).(*ast.Ident); ok && id.Name == "make" {
				_, isBuiltin := p.Info.Uses[id].(*types.Builtin)
				return isBuiltin
			}
		}
		return false
	}
	ast.Inspect(fd.Body, func(n ast.Node) bool {
		switch x := n.(type) {
		case *ast.AssignStmt:
			for i, l := range x.Lhs {
				o := objOf(l)
				if o == nil || !cands[o] {
					continue
				}
				if len(x.Lhs) != len(x.Rhs) || !okRHS(o, x.Rhs[i]) {
					delete(cands, o)
				}
			}
		case *ast.ValueSpec:
			for i, nm := range x.Names {
				o := p.Info.Defs[nm]
				if o == nil || !cands[o] {
					continue
				}
				if len(x.Values) != 0 && (len(x.Values) != len(x.Names) || !okRHS(o, x.Values[i])) {
					delete(cands, o)
				}
			}
		case *ast.UnaryExpr:
			if x.Op == token.AND {
				if o := objOf(x.X); o != nil {
					delete(cands, o)
				}
			}
		case *ast.RangeStmt:
			for _, e := range []ast.Expr{x.Key, x.Value} {
				if e != nil {
					if o := objOf(e); o != nil {
						delete(cands, o)
					}
				}
			}
		}
		return true
	})
	var out []string
	for o := range cands {
		out = append(out, o.Name())
	}
	sort.Strings(out)
	return out
}
