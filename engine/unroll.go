package main

import (
	"fmt"
	"os"
	"time"
	"go/ast"
	"go/token"
	"go/types"
)

// Bounded unrolling ("counterexample search mode"): loops are executed up to c.unroll iterations without
// invariants; paths that would need more iterations are dropped. It is never used to accept an obligation,
// only to find concrete failing inputs for an obligation that the deductive check already failed.

func (c *FnCtx) loopEscapes(out *Outs, o Outs, label string) {
	for k, v := range o.brk {
		if k != "" && k != label {
			if out.brk == nil {
				out.brk = map[string]*State{}
			}
			out.brk[k] = c.merge(out.brk[k], v)
		}
	}
	for k, v := range o.cont {
		if k != "" && k != label {
			if out.cont == nil {
				out.cont = map[string]*State{}
			}
			out.cont[k] = c.merge(out.cont[k], v)
		}
	}
}

func (c *FnCtx) unrollFor(x *ast.ForStmt, st *State, label string) Outs {
	out := Outs{}
	cur := st
	var exitAcc *State
	for it := 0; cur != nil; it++ {
		cond := "true"
		if x.Cond != nil {
			cond = c.name(cur, "lc", c.eval(x.Cond, cur), sBool)
		}
		if cond != "true" {
			ex := cur.clone()
			ex.addCond(not(cond))
			exitAcc = c.merge(exitAcc, ex)
		}
		if it == c.unroll {
			break
		}
		cur.addCond(cond)
		o := c.execBlock(x.Body.List, cur)
		exitAcc = c.merge(exitAcc, o.brk[""])
		if label != "" {
			exitAcc = c.merge(exitAcc, o.brk[label])
		}
		c.loopEscapes(&out, o, label)
		next := c.merge(o.normal, o.cont[""])
		if label != "" {
			next = c.merge(next, o.cont[label])
		}
		if next != nil && x.Post != nil {
			next = c.exec(x.Post, next).normal
		}
		cur = next
	}
	out.normal = exitAcc
	return out
}

func (c *FnCtx) unrollRange(x *ast.RangeStmt, st *State, label string) Outs {
	xt := c.typeOf(x.X)
	keyObj, valObj := c.rangeVar(x.Key, x.Tok), c.rangeVar(x.Value, x.Tok)
	define := func(s *State, obj types.Object, e ast.Expr, v string) {
		if e == nil {
			return
		}
		if id, ok := e.(*ast.Ident); ok && id.Name == "_" {
			return
		}
		if x.Tok == token.DEFINE {
			delete(s.vars, obj)
			c.declareLocal(s, obj, v)
		} else {
			c.assignTo(e, v, s)
		}
	}
	out := Outs{}
	var exitAcc *State
	step := func(cur *State, bind func(body *State)) *State {
		bind(cur)
		o := c.execBlock(x.Body.List, cur)
		exitAcc = c.merge(exitAcc, o.brk[""])
		if label != "" {
			exitAcc = c.merge(exitAcc, o.brk[label])
		}
		c.loopEscapes(&out, o, label)
		next := c.merge(o.normal, o.cont[""])
		if label != "" {
			next = c.merge(next, o.cont[label])
		}
		return next
	}
	cur := st
	switch u := xt.Underlying().(type) {
	case *types.Slice:
		s := c.name(cur, "rs", c.eval(x.X, cur), sSlice)
		for it := 0; cur != nil; it++ {
			ex := cur.clone()
			ex.addCond(fmt.Sprintf("(<= (slen %s) %d)", s, it))
			exitAcc = c.merge(exitAcc, ex)
			if it == c.unroll {
				break
			}
			cur.addCond(fmt.Sprintf("(> (slen %s) %d)", s, it))
			idx := fmt.Sprint(it)
			cur = step(cur, func(b *State) {
				if keyObj != nil {
					define(b, keyObj, x.Key, idx)
				}
				if x.Value != nil {
					n, srt := c.elemsArr(u.Elem())
					ev := c.name(b, "rv", sel(sel(c.h(b, n, srt), "(sbase "+s+")"), "(+ (soff "+s+") "+idx+")"), c.tt.sortOf(u.Elem()))
					b.addFact(c.typeInv(b, ev, u.Elem(), 0))
					define(b, valObj, x.Value, ev)
				}
			})
		}
	case *types.Map:
		m := c.name(cur, "rm", c.eval(x.X, cur), sInt)
		dn, ds, vn, vs := c.mapArrs(u)
		ks := c.tt.sortOf(u.Key())
		setSort := "(Array " + ks + " Bool)"
		vis := "((as const " + setSort + ") false)"
		for it := 0; cur != nil; it++ {
			domNow := sel(c.h(cur, dn, ds), m)
			ex := cur.clone()
			ex.addCond(fmt.Sprintf("(forall ((k %s)) (! (=> (select %s k) (select %s k)) :pattern ((select %s k))))", ks, domNow, vis, domNow))
			exitAcc = c.merge(exitAcc, ex)
			if it == c.unroll {
				break
			}
			k := c.fresh("k", ks)
			cur.addCond(and(sel(domNow, k), not(sel(vis, k))))
			cur.addFact(c.typeInv(cur, k, u.Key(), 0))
			vis = store(vis, k, "true")
			cur = step(cur, func(b *State) {
				if x.Key != nil {
					define(b, keyObj, x.Key, k)
				}
				if x.Value != nil {
					ev := c.name(b, "rv", sel(sel(c.h(b, vn, vs), m), k), c.tt.sortOf(u.Elem()))
					b.addFact(c.typeInv(b, ev, u.Elem(), 0))
					define(b, valObj, x.Value, ev)
				}
			})
		}
	case *types.Basic:
		switch {
		case u.Info()&types.IsString != 0:
			s := c.name(cur, "rstr", c.eval(x.X, cur), sString)
			c.blenFacts(cur, s)
			c.declareFun("runeAt", []string{sString, sInt}, sInt)
			c.declareFun("widthAt", []string{sString, sInt}, sInt)
			ln := "(blen " + s + ")"
			off := "0"
			for it := 0; cur != nil; it++ {
				ex := cur.clone()
				ex.addCond(eq(off, ln))
				exitAcc = c.merge(exitAcc, ex)
				if it == c.unroll {
					break
				}
				cur.addCond("(< " + off + " " + ln + ")")
				w := c.fresh("w", sInt)
				ch := c.fresh("ch", sInt)
				cur.addFact(and(eq(ch, "(runeAt "+s+" "+off+")"), eq(w, "(widthAt "+s+" "+off+")"), "(<= 1 "+w+")", "(<= "+w+" 4)", "(<= (+ "+off+" "+w+") "+ln+")",
					"(<= 0 "+ch+")", "(<= "+ch+" 1114111)", "(= (= "+w+" 1) (< "+ch+" 128))", "(= (= "+w+" 2) (and (>= "+ch+" 128) (< "+ch+" 2048)))",
					"(= (= "+w+" 3) (and (>= "+ch+" 2048) (< "+ch+" 65536)))", "(not (and (>= "+ch+" 55296) (<= "+ch+" 57343)))"))
				thisOff := off
				cur = step(cur, func(b *State) {
					if keyObj != nil {
						define(b, keyObj, x.Key, thisOff)
					}
					if x.Value != nil {
						define(b, valObj, x.Value, ch)
					}
				})
				off = "(+ " + off + " " + w + ")"
			}
		case u.Info()&types.IsInteger != 0:
			n := c.name(cur, "rn", c.eval(x.X, cur), sInt)
			for it := 0; cur != nil; it++ {
				ex := cur.clone()
				ex.addCond(fmt.Sprintf("(<= %s %d)", n, it))
				exitAcc = c.merge(exitAcc, ex)
				if it == c.unroll {
					break
				}
				cur.addCond(fmt.Sprintf("(> %s %d)", n, it))
				idx := fmt.Sprint(it)
				cur = step(cur, func(b *State) {
					if keyObj != nil {
						define(b, keyObj, x.Key, idx)
					}
				})
			}
		default:
			c.fail(x.Pos(), "unsupported range over %s", xt)
		}
	default:
		c.fail(x.Pos(), "unsupported range over %s", xt)
	}
	out.normal = exitAcc
	return out
}

// bmcSearch re-runs the function in bounded-unrolling mode and looks for a failing input that the real
// code reproduces. It returns the first reproduced replay, or nil.
func (e *Engine) bmcSearch(r *FnResult, prop, repoDir string, kinds map[string]bool) *ReplayFile {
	if r.Contract == nil || r.Ctx == nil || r.Ctx.fd == nil {
		return nil
	}
	p := e.prog.Pkgs[r.Pkg]
	for _, k := range []int{2, 4} {
		e.unroll = k
		br := e.verifyFunc(p, r.Contract)
		e.unroll = 0
		if br.Ctx == nil {
			continue
		}
		tried := 0
		for _, o := range br.Obls {
			if !(o.Prop == prop || prop == "") || !kinds[o.Kind] || e.knownObl[oblBase(o.Name)] {
				continue
			}
			if !e.failDeadline.IsZero() && time.Now().After(e.failDeadline) {
				return nil
			}
			smt := e.smtFile(br.Ctx, o, true)
			file := fmt.Sprintf("%s/bmc_%s_%d.smt2", e.workDir, sanitizeFile(o.Name), k)
			writeFile(file, smt)
			res := runSolver("z3-new", file, 10)
			if res.status != "sat" {
				continue
			}
			o.Status, o.Detail, o.Solver = "failed", "sat", "z3-new"
			rf := e.buildReplay(br, o, smt)
			if rf.TestSource == "" {
				if os.Getenv("VERIF_DEBUG") != "" {
					fmt.Fprintf(os.Stderr, "bmc: %s: no replay: %s\n", o.Name, rf.Note)
				}
				continue
			}
			tried++
			runReplay(rf, repoDir, e.workDir+"/replay")
			if rf.Reproduced {
				rf.Note = fmt.Sprintf("failing input found by bounded unrolling (up to %d loop iterations) of the same function and contract; the real function reproduces it", k)
				rf.SMTFile = file
				return rf
			}
			if tried >= 4 {
				break
			}
		}
	}
	return nil
}
