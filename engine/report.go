package main

import (
	"unicode/utf8"
	"bufio"
	"encoding/json"
	"fmt"
	"os"
	"path/filepath"
	"regexp"
	"sort"
	"strconv"
	"strings"
	"time"
)

type KnownFinding struct {
	Property   string
	Obligation string
	What       string
}

var findingRe = regexp.MustCompile(`^finding:\s+property=(\S+)\s+obligation="([^"]+)"\s+(.*)$`)

// oblBase strips the conjunct (.N) and occurrence (~N) suffixes the generator appends to a clause's
// obligation name: a known finding names the clause and its return site, and stays the same finding
// whichever conjunct of that clause, or whichever execution path to that site, exhibits it.
var oblSuffixRe = regexp.MustCompile(`((\.\d+)+)?(~\d+)?$`)

func oblBase(name string) string { return oblSuffixRe.ReplaceAllString(name, "") }

// oblMatches compares a recorded obligation name with a failed one by base name. For findings in *generated* code
// the recorded name may contain '*' wildcards standing for the instance-specific parts (package, type and list
// names): the finding is then one defect of a generator template, exhibited by every instance of that template.
func oblMatches(recorded, name string) bool {
	r, n := oblBase(recorded), oblBase(name)
	if !strings.Contains(r, "*") {
		return r == n
	}
	parts := strings.Split(r, "*")
	if !strings.HasPrefix(n, parts[0]) {
		return false
	}
	n = n[len(parts[0]):]
	for i := 1; i < len(parts); i++ {
		p := parts[i]
		if i == len(parts)-1 {
			return strings.HasSuffix(n, p)
		}
		k := strings.Index(n, p)
		if k < 0 {
			return false
		}
		n = n[k+len(p):]
	}
	return true
}

func loadKnownFindings(path string) []KnownFinding {
	f, err := os.Open(path)
	if err != nil {
		return nil
	}
	defer f.Close()
	var out []KnownFinding
	sc := bufio.NewScanner(f)
	for sc.Scan() {
		m := findingRe.FindStringSubmatch(strings.TrimSpace(sc.Text()))
		if m != nil {
			out = append(out, KnownFinding{m[1], m[2], m[3]})
		}
	}
	return out
}

type oblEvidence struct {
	Name    string  `json:"name"`
	Kind    string  `json:"kind"`
	Status  string  `json:"status"`
	Solver  string  `json:"solver,omitempty"`
	TimeS   float64 `json:"time_s"`
	Clause  string  `json:"clause,omitempty"`
	Detail  string  `json:"detail,omitempty"`
}

type fnEvidence struct {
	Function     string   `json:"function"`
	Obligations  int      `json:"obligations"`
	Discharged   int      `json:"discharged"`
	Paths        int      `json:"return_paths"`
	Abstractions []string `json:"abstractions,omitempty"`
	Assumed      []string `json:"assumed_contracts_used,omitempty"`
	Error        string   `json:"error,omitempty"`
}

type runOpts struct {
	prop, tier  string
	verbose     bool
	t0          time.Time
	verifDir    string
	repoDir     string
	checkerCmd  string
	extraAssume []string
	bounded     []map[string]any
	seed        int64
	level       string
	genInstances []string
}

// finishRun filters obligations by property, handles failures (known findings, replay), writes evidence, returns exit code.
func finishRun(e *Engine, results []*FnResult, ro runOpts) int {
	known := loadKnownFindings(filepath.Join(ro.verifDir, "KNOWN_FINDINGS.txt"))
	e.knownObl = map[string]bool{}
	for _, k := range known {
		if k.Property == ro.prop {
			e.knownObl[oblBase(k.Obligation)] = true
		}
	}
	exit := 0
	machinery := []string{}
	var fns []fnEvidence
	var obs []oblEvidence
	var knownObs []oblEvidence
	nob, ndis := 0, 0
	var solverTime float64
	violations := 0
	vacChecks := 0
	bmcCache := map[string]*ReplayFile{}
	knownPrinted := map[int]bool{}
	absSet := map[string]bool{}
	assumedSet := map[string]bool{}
	var samples []any
	for _, r := range results {
		fe := fnEvidence{Function: r.Fn, Paths: r.Paths, Abstractions: r.Abstractions, Assumed: r.Assumed, Error: r.Err}
		for _, a := range r.Abstractions {
			absSet[r.Fn+": "+a] = true
		}
		for _, a := range r.Assumed {
			assumedSet[a] = true
		}
		if r.Err != "" {
			machinery = append(machinery, r.Fn+": "+r.Err)
		}
		mine := 0
		for _, o := range r.Obls {
			if !(o.Prop == ro.prop || o.Prop == "*" || ro.prop == "") {
				continue
			}
			mine++
			oe := oblEvidence{Name: o.Name, Kind: o.Kind, Status: o.Status, Solver: o.Solver, TimeS: round3(o.TimeS), Clause: clipText(o.Text, 240), Detail: clipText(o.Detail, 400)}
			solverTime += o.TimeS
			if o.Status == "discharged" && (o.Kind == "vacuity" || o.Kind == "reach") {
				if r.Contract != nil {
					for _, u := range r.Contract.Unreachable {
						if strings.HasSuffix(o.Name, "reach@"+u) || strings.HasSuffix(strings.TrimRight(o.Name, "0123456789~"), "reach@"+u) {
							if o.Solver != "" {
								machinery = append(machinery, o.Name+": declared unreachable but the solver ("+o.Solver+") found it reachable")
							} else {
								fmt.Printf("NOTE: %s: declared unreachable; undecided in this run (%s)\n", o.Name, o.Detail)
							}
						}
					}
				}
				vacChecks++
				continue
			}
			if o.Status == "discharged" {
				nob++
				ndis++
				fe.Obligations++
				fe.Discharged++
				obs = append(obs, oe)
				if ro.verbose {
					fmt.Printf("  ok   %-72s %s %.2fs\n", o.Name, o.Solver, o.TimeS)
				}
				continue
			}
			if o.Kind == "vacuity" || o.Kind == "reach" {
				declared := false
				if r.Contract != nil {
					for _, u := range r.Contract.Unreachable {
						if strings.HasSuffix(o.Name, "reach@"+u) || strings.HasSuffix(strings.TrimRight(o.Name, "0123456789~"), "reach@"+u) {
							declared = true
						}
					}
				}
				if declared {
					vacChecks++
					continue
				}
				machinery = append(machinery, o.Name+": "+o.Detail+" (a return site or precondition is unsatisfiable: the proof would be vacuous; declare '//@ unreachable <return text>' if intended)")
				continue
			}
			// known finding?
			isKnown := false
			for ki, k := range known {
				if k.Property == ro.prop && oblMatches(k.Obligation, o.Name) {
					if !knownPrinted[ki] {
						fmt.Printf("KNOWN-FINDING: property=%s %s (obligation %s)\n", ro.prop, k.What, oblBase(o.Name))
						knownPrinted[ki] = true
					}
					isKnown = true
					break
				}
			}
			if isKnown {
				oe.Status = "known-finding"
				knownObs = append(knownObs, oe)
				continue
			}
			nob++
			fe.Obligations++
			obs = append(obs, oe)
			violations++
			// replay
			dir := filepath.Join(e.workDir, sanitize(o.Fn))
			smtPath := filepath.Join(dir, sanitizeFile(o.Name)+".smt2")
			if o.Model != "" {
				smtPath = o.Model // candidate model of the quantifier-free weakening
			}
			smt, _ := os.ReadFile(smtPath)
			// the search for a failing input is bounded in wall time per run (quick 150 s, thorough 900 s from the
			// first failure); later failures are still reported, with the solver's output and no-failing-input-found
			if e.failDeadline.IsZero() {
				budget := 150 * time.Second
				if ro.tier == "thorough" {
					budget = 900 * time.Second
				}
				if s, err := strconv.Atoi(os.Getenv("VERIF_FAIL_BUDGET_S")); err == nil && s >= 0 {
					budget = time.Duration(s) * time.Second // self-test runs only need the verdict
				}
				e.failDeadline = time.Now().Add(budget)
			}
			var rf *ReplayFile
			if time.Now().After(e.failDeadline) {
				rf = &ReplayFile{Obligation: o.Name, Kind: o.Kind, Function: r.Fn, Package: r.Pkg, Clause: o.Text, Solver: o.Solver, SolverOutput: o.Detail,
					Note: "failing-input search skipped: the run's replay time budget was used up by earlier failures"}
			} else {
				rf = e.buildReplay(r, o, string(smt))
			}
			rf.Property = ro.prop
			rf.SMTFile = smtPath
			if o.Status == "unknown" {
				rf.SolverOutput = "undecided: " + o.Detail
			}
			if time.Now().Before(e.failDeadline) {
				runReplay(rf, ro.repoDir, filepath.Join(e.workDir, "replay"))
			}
			if !rf.Reproduced && r.Contract != nil && time.Now().Before(e.failDeadline) {
				// look for a concrete failing input by bounded unrolling of the same function (once per function)
				if _, done := bmcCache[r.Fn]; !done {
					bmcCache[r.Fn] = e.bmcSearch(r, ro.prop, ro.repoDir, map[string]bool{"post": true, "index": true, "nilderef": true, "typeassert": true,
						"ifacecmp": true, "panic": true, "nilmap": true, "div": true, "slice": true, "frame": true, "makeslice": true})
				}
				if b := bmcCache[r.Fn]; b != nil {
					b2 := *b
					b2.Property, b2.Clause = ro.prop, o.Text+"  (failing obligation: "+o.Name+"; input found for "+b.Obligation+")"
					b2.Obligation = o.Name
					b2.SolverOutput = rf.SolverOutput + "; " + o.Status + " " + o.Detail
					rf = &b2
				}
			}
			rdir := filepath.Join(ro.verifDir, "replays", ro.prop)
			os.MkdirAll(rdir, 0o755)
			rpath := filepath.Join(rdir, sanitizeFile(o.Name)+".json")
			js, _ := json.MarshalIndent(rf, "", "  ")
			os.WriteFile(rpath, js, 0o644)
			suffix := ""
			if !rf.Reproduced {
				suffix = " no-failing-input-found"
			}
			fmt.Printf("  FAIL %s: %s %s [%s]\n       %s\n", o.Name, o.Status, o.Detail, o.Text, rf.Note)
			if rf.Reproduced {
				fmt.Printf("       failing input: %s -> %s\n", strings.Join(rf.Inputs, "; "), rf.RealOutput)
			}
			fmt.Printf("VIOLATION property=%s replay=%s%s\n", ro.prop, rpath, suffix)
			exit = 1
		}
		if mine > 0 || r.Err != "" {
			fns = append(fns, fe)
		}
	}
	for k, v := range e.axiomErrs {
		machinery = append(machinery, "axiom "+k+" could not be evaluated: "+v)
	}
	if len(machinery) > 0 {
		for _, m := range machinery {
			fmt.Printf("MACHINERY-ERROR: %s\n", m)
		}
		if exit == 0 {
			exit = 2
		}
	}
	if nob == 0 && exit == 0 {
		fmt.Printf("MACHINERY-ERROR: no obligations were generated for %s\n", ro.prop)
		exit = 2
	}
	// samples: a few obligations written out
	for i, o := range obs {
		if i%max(1, len(obs)/5) == 0 && len(samples) < 6 {
			samples = append(samples, map[string]any{"obligation": o.Name, "clause": o.Clause, "status": o.Status, "solver": o.Solver})
		}
	}
	var abstractions, assumed []string
	for k := range absSet {
		abstractions = append(abstractions, k)
	}
	sort.Strings(abstractions)
	for k := range assumedSet {
		assumed = append(assumed, k)
	}
	sort.Strings(assumed)
	trusted := []string{
		"govc VC generator (/verif/engine): Go semantics of DESIGN.md 2.3, loop-cut and call-by-contract rules",
		"SMT solvers z3 5.1.0 (z3-new), z3 4.8.12, cvc5 1.0.3",
		"`int` arithmetic treated as mathematical (no 64-bit overflow on lengths and indices); sized integer types wrap",
		"float64 -> integer conversion follows amd64 (out of range or NaN gives MinInt64)",
		"finite-set cardinality axioms for len(map)",
		"termination is not proved (partial correctness)",
		"pure-library calls (fmt, strings, strconv, reflect getters, debug printing) are uninterpreted, side-effect-free functions of their arguments",
	}
	for _, a := range assumed {
		trusted = append(trusted, "assumed contract: "+a)
	}
	trusted = append(trusted, ro.extraAssume...)
	cov := map[string]any{
		"obligations":               nob,
		"discharged":                ndis,
		"checker_cmd":               ro.checkerCmd,
		"trusted_base":              trusted,
		"samples":                   samples,
		"functions_under_contract":  fns,
		"obligation_results":        obs,
		"known_finding_obligations": knownObs,
		"abstractions":              abstractions,
		"assumed_contracts":         assumed,
		"solver_time_s":             round3(solverTime),
		"vacuity_checks":            vacChecks,
		"back_ends":                 "quick: z3-new first, then z3 4.8.12 and cvc5 raced on unknown; thorough: all three on every obligation",
	}
	if len(ro.bounded) > 0 {
		cov["bounded_checks"] = ro.bounded
	}
	if len(ro.genInstances) > 0 {
		cov["generated_instances"] = ro.genInstances
	}
	level := ro.level
	if level == "" {
		level = "proof"
	}
	ev := map[string]any{
		"property_id": ro.prop,
		"tier":        ro.tier,
		"seed":        ro.seed,
		"level":       level,
		"coverage":    cov,
		"assumptions": trusted,
		"wall_s":      round3(time.Since(ro.t0).Seconds()),
		"violations":  violations,
	}
	// seeded-change and debugging runs set VERIF_EVIDENCE_DIR so that they never overwrite the record of the real tree
	evDir := os.Getenv("VERIF_EVIDENCE_DIR")
	if evDir == "" {
		evDir = filepath.Join(ro.verifDir, "evidence")
	}
	os.MkdirAll(evDir, 0o755)
	js, _ := json.MarshalIndent(ev, "", " ")
	os.WriteFile(filepath.Join(evDir, ro.prop+".json"), js, 0o644)
	fmt.Printf("%s [%s]: %d functions under contract, %d obligations, %d discharged, %d known findings, solver %.1fs, wall %.1fs\n",
		ro.prop, ro.tier, len(fns), nob, ndis, len(knownObs), solverTime, time.Since(ro.t0).Seconds())
	return exit
}

func round3(f float64) float64 { return float64(int(f*1000+0.5)) / 1000 }

// clipText keeps evidence records small (a generated-code property has thousands of obligations whose clause text
// runs to kilobytes; the full text is in the contract files and templates).
func clipText(s string, n int) string {
	if len(s) <= n {
		return s
	}
	cut := n
	for cut > 0 && !utf8.RuneStart(s[cut]) {
		cut--
	}
	return s[:cut] + " …"
}
