package main

import (
	"os"
	"regexp"
	"strings"
)

// directPatterns returns the distinct sub-terms of body of the form (select A v) in which the bound variable v
// is the index itself (no arithmetic) and does not occur in A. They are arithmetic-free E-matching triggers
// that cover v; when none exists the solver's own pattern inference is used.
func directPatterns(body, v string) []string {
	seen := map[string]bool{}
	var out []string
	for i := 0; i+8 < len(body); i++ {
		if !strings.HasPrefix(body[i:], "(select ") {
			continue
		}
		end := matchParen(body, i)
		if end < 0 {
			continue
		}
		term := body[i : end+1]
		args := topLevelArgs(term[8 : len(term)-1])
		if len(args) != 2 || args[1] != v {
			continue
		}
		if containsSymbol(args[0], v) || strings.Contains(args[0], "!q") || strings.Contains(args[0], "a!") {
			continue // array term depends on a bound variable (this or another one) or on a let-bound name
		}
		if !seen[term] {
			seen[term] = true
			out = append(out, term)
		}
		if len(out) >= 4 {
			break
		}
	}
	return out
}

func matchParen(s string, i int) int {
	depth := 0
	inStr := false
	for j := i; j < len(s); j++ {
		ch := s[j]
		if inStr {
			if ch == '"' {
				inStr = false
			}
			continue
		}
		switch ch {
		case '"':
			inStr = true
		case '(':
			depth++
		case ')':
			depth--
			if depth == 0 {
				return j
			}
		}
	}
	return -1
}

func containsSymbol(s, sym string) bool {
	for i := 0; ; {
		k := strings.Index(s[i:], sym)
		if k < 0 {
			return false
		}
		k += i
		before := k == 0 || strings.ContainsRune(" ()", rune(s[k-1]))
		after := k+len(sym) == len(s) || strings.ContainsRune(" ()", rune(s[k+len(sym)]))
		if before && after {
			return true
		}
		i = k + len(sym)
	}
}

// absolutize rewrites a quantified body whose bound index variable v is used as a slice index relative to one
// slice header, `(+ (soff S) v)`, into a body over the absolute array position p = (soff S) + v. The element
// reads then become `(select row p)` with the bound variable as the bare index, which is an arithmetic-free
// E-matching trigger. The substitution v = p - (soff S) is a bijection on Int, so the quantified formula is
// equivalent. Returns the new body and true when the rewrite applies.
func absolutize(body, v, p string, siblings []string) (string, bool) {
	if strings.Contains(body, "(let ((a!") {
		// let-bound argument names of inlined spec functions: substitute the definitions first, so that a slice
		// header found inside a let can be used as origin for occurrences of v outside that let as well
		body = expandLets(body)
	}
	needle := " " + v + ")"
	counts := map[string]int{}
	var order []string
	for i := 0; i+8 < len(body); i++ {
		if !strings.HasPrefix(body[i:], "(+ (soff ") {
			continue
		}
		end := matchParen(body, i)
		if end < 0 {
			continue
		}
		term := body[i : end+1]
		if !strings.HasSuffix(term, needle) {
			continue
		}
		inner := term[3 : len(term)-len(needle)] // "(soff S)"
		if matchParen(inner, 0) != len(inner)-1 || containsSymbol(inner, v) || bindsAnyOf(body, inner) || mentionsAny(inner, siblings) {
			// (a slice header that mentions v itself, a variable of the same binder list, or a variable bound by a
			// quantifier inside this body, is not a usable origin; variables bound further out - and let-bound
			// names still here after expandLets - are in scope wherever v is)
			continue
		}
		if counts[inner] == 0 {
			order = append(order, inner)
		}
		counts[inner]++
	}
	best := ""
	for _, k := range order {
		if best == "" || counts[k] > counts[best] {
			best = k
		}
	}
	if best == "" {
		return body, false
	}
	out := strings.ReplaceAll(body, "(+ "+best+" "+v+")", p)
	out = replaceSymbol(out, v, "(- "+p+" "+best+")")
	return out, true
}

// replaceSymbol replaces whole-symbol occurrences of sym in an s-expression string.
func replaceSymbol(s, sym, by string) string {
	var b strings.Builder
	for i := 0; i < len(s); {
		k := strings.Index(s[i:], sym)
		if k < 0 {
			b.WriteString(s[i:])
			break
		}
		k += i
		before := k == 0 || strings.ContainsRune(" ()", rune(s[k-1]))
		after := k+len(sym) == len(s) || strings.ContainsRune(" ()", rune(s[k+len(sym)]))
		b.WriteString(s[i:k])
		if before && after {
			b.WriteString(by)
		} else {
			b.WriteString(sym)
		}
		i = k + len(sym)
	}
	return b.String()
}

// noAbsolutize switches the index rewrite off (debugging: VERIF_NO_ABS=1).
var noAbsolutize = os.Getenv("VERIF_NO_ABS") != ""

var dtNameRe = regexp.MustCompile(`^\(declare-datatypes \(\((\S+) 0\)\)`)

// neededDatatypes returns, in declaration order, the datatype declarations whose sort name occurs in text or in
// another needed declaration.
func neededDatatypes(decls []string, text string) []string {
	names := make([]string, len(decls))
	need := make([]bool, len(decls))
	for i, d := range decls {
		if m := dtNameRe.FindStringSubmatch(d); m != nil {
			names[i] = m[1]
		} else {
			need[i] = true
		}
	}
	for changed := true; changed; {
		changed = false
		for i, d := range decls {
			if need[i] {
				continue
			}
			if containsSymbolLoose(text, names[i]) {
				need[i] = true
				changed = true
				text += d
			}
		}
	}
	var out []string
	for i, d := range decls {
		if need[i] {
			out = append(out, d)
		}
	}
	return out
}

// containsSymbolLoose: sym occurs delimited by characters that cannot be part of a sort or accessor name built from it.
func containsSymbolLoose(s, sym string) bool {
	for i := 0; ; {
		k := strings.Index(s[i:], sym)
		if k < 0 {
			return false
		}
		k += i
		end := k + len(sym)
		// accessors are f!<key>!field and constructors mk!S!<key>: any occurrence of the key means the sort is used
		if end == len(s) || strings.ContainsRune(" ()!", rune(s[end])) {
			return true
		}
		i = k + 1
	}
}

// expandLets replaces every `(let ((n1 d1) ... (nk dk)) B)` whose names are the engine's own a!N by B with the
// definitions substituted (innermost first; the names are globally unique, so no capture is possible).
func expandLets(s string) string {
	for guard := 0; guard < 10000; guard++ {
		i := strings.LastIndex(s, "(let ((a!")
		if i < 0 {
			return s
		}
		end := matchParen(s, i)
		if end < 0 {
			return s
		}
		bs := i + len("(let ")
		be := matchParen(s, bs)
		if be < 0 {
			return s
		}
		binds := s[bs+1 : be]
		body := strings.TrimSpace(s[be+1 : end])
		for k := 0; k < len(binds); {
			if binds[k] != '(' {
				k++
				continue
			}
			e := matchParen(binds, k)
			if e < 0 {
				return s
			}
			b := binds[k+1 : e]
			sp := strings.IndexByte(b, ' ')
			if sp < 0 {
				return s
			}
			body = replaceSymbol(body, b[:sp], strings.TrimSpace(b[sp+1:]))
			k = e + 1
		}
		s = s[:i] + body + s[end+1:]
	}
	return s
}

var boundVarRe = regexp.MustCompile(`[A-Za-z_][A-Za-z_0-9]*!q[0-9]+p?`)

// bindsAnyOf: body contains a binder for one of the bound-variable symbols (x!qN) that occur in term.
func bindsAnyOf(body, term string) bool {
	for _, sym := range boundVarRe.FindAllString(term, -1) {
		if strings.Contains(body, "("+sym+" ") {
			return true
		}
	}
	return false
}

func mentionsAny(term string, syms []string) bool {
	for _, sy := range syms {
		if containsSymbol(term, sy) {
			return true
		}
	}
	return false
}
