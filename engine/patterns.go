package main

import "strings"

// directPatterns returns the distinct sub-terms of body of the form (select A v) in which the bound variable v
// is the index itself (no arithmetic) and does not occur in A. They are arithmetic-free E-matching triggers
// that cover v; when none exists the solver's own pattern inference is used.
func directPatterns(body, v string) []string {
	seen := map[string]bool{}
	var out []string
	for i := 0; i+8 < len(body); i++ {
		if !strings.HasPrefix(body[i:], "(select ") {
			continue
		}
		end := matchParen(body, i)
		if end < 0 {
			continue
		}
		term := body[i : end+1]
		args := topLevelArgs(term[8 : len(term)-1])
		if len(args) != 2 || args[1] != v {
			continue
		}
		if containsSymbol(args[0], v) || strings.Contains(args[0], "!q") || strings.Contains(args[0], "a!") {
			continue // array term depends on a bound variable (this or another one) or on a let-bound name
		}
		if !seen[term] {
			seen[term] = true
			out = append(out, term)
		}
		if len(out) >= 4 {
			break
		}
	}
	return out
}

func matchParen(s string, i int) int {
	depth := 0
	inStr := false
	for j := i; j < len(s); j++ {
		ch := s[j]
		if inStr {
			if ch == '"' {
				inStr = false
			}
			continue
		}
		switch ch {
		case '"':
			inStr = true
		case '(':
			depth++
		case ')':
			depth--
			if depth == 0 {
				return j
			}
		}
	}
	return -1
}

func containsSymbol(s, sym string) bool {
	for i := 0; ; {
		k := strings.Index(s[i:], sym)
		if k < 0 {
			return false
		}
		k += i
		before := k == 0 || strings.ContainsRune(" ()", rune(s[k-1]))
		after := k+len(sym) == len(s) || strings.ContainsRune(" ()", rune(s[k+len(sym)]))
		if before && after {
			return true
		}
		i = k + len(sym)
	}
}
