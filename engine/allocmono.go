package main

// monotoneAlloc states that every object allocated in oldAlloc is allocated in newAlloc. The old term is named
// first so that the quantifier triggers are selects on array constants (a compound `store`/`ite` term in a
// trigger is practically never matched), and both directions are offered as triggers.
func (c *FnCtx) monotoneAlloc(st *State, oldAlloc, newAlloc string) {
	if oldAlloc == newAlloc {
		return
	}
	old := oldAlloc
	if len(old) > 0 && old[0] == '(' {
		old = c.fresh("alloc_old", "(Array Int Bool)")
		st.addDef(eq(old, oldAlloc))
	}
	st.addDef("(forall ((r Int)) (! (=> (select " + old + " r) (select " + newAlloc + " r)) :pattern ((select " + old + " r)) :pattern ((select " + newAlloc + " r))))")
}
