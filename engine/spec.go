package main

import (
	"bufio"
	"bytes"
	"fmt"
	"go/scanner"
	"go/token"
	"os"
	"regexp"
	"strconv"
	"strings"
)

// ---------- contract file model ----------

type Clause struct {
	Kind   string // requires | ensures | invariant | lemma | axiom
	Prop   string
	Text   string // spec source text
	GoExpr string // translated Go expression
	GoFn   string // synthetic function name
	Params []string
	Label  string
	Loop   int
	File   string
	Line   int
	Reveal []string
	Uses   []string
	Unbound string // non-empty: the clause does not bind to the current code (contract drift)
}

type ModLoc struct {
	Kind string // field | mapall | elems | ghost | cell
	Text string // expression text of the object (struct ptr / map / slice / pointer)
	Fld  string
	GoFn string
	Params []string
}

type FuncContract struct {
	Pkg       string // package path
	Name      string // f | (T).m | (*T).m
	Requires  []*Clause
	Ensures   []*Clause
	Modifies  []*ModLoc
	ModGiven  bool
	ModHeap   bool // "modifies heap": may write anything (assumed walkers)
	Loops     map[int][]*Clause
	Mode      string // "" | inline | pure | opaque
	Assumed   bool   // contract is trusted, body not verified
	Safety    bool   // generate own panic-site obligations
	Frame     bool   // check stores against modifies
	Props     map[string]bool
	File      string
	Line      int
	Decreases string
	Bounded   bool
	Primary    string
	SafetyProp string
	FrameProp  string
	Reveal     []string
	Unreachable []string
	// Records: ghost history effects, `//@ records g += expr`: on every normal return of the function the entry
	// value of expr is added to the ghost set g (g then denotes "the objects this function has returned for")
	Records []*ModLoc
}

type SpecFunc struct {
	Name   string
	Params string // Go parameter list text
	Ret    string
	Body   string // translated Go expr; empty for UF
	UF     bool
	Opaque bool
	Prop   string
	Line   int
}

type SpecFile struct {
	Path     string
	PkgPath  string
	PkgName  string
	Imports  [][2]string // alias, path
	Funcs    []*SpecFunc
	Ghosts   [][2]string // name, type
	Types    []string    // specification-only type declarations
	Lemmas   []*Clause
	Axioms   []*Clause
	Contracts []*FuncContract
}

var contRe = regexp.MustCompile(`^//@(\s*)(.*)$`)

// parseSpecFile reads //@ directives.
func parseSpecFile(path string) (*SpecFile, error) {
	b, err := os.ReadFile(path)
	if err != nil {
		return nil, err
	}
	return parseSpecSource(path, b)
}

func parseSpecSource(path string, src []byte) (*SpecFile, error) {
	f := bytes.NewReader(src)
	sf := &SpecFile{Path: path}
	type dline struct {
		text string
		line int
	}
	var ds []dline
	sc := bufio.NewScanner(f)
	sc.Buffer(make([]byte, 1<<20), 1<<20)
	ln := 0
	for sc.Scan() {
		ln++
		l := strings.TrimRight(sc.Text(), " \t")
		if strings.HasPrefix(l, "package ") && sf.PkgName == "" {
			sf.PkgName = strings.TrimSpace(strings.TrimPrefix(l, "package "))
			continue
		}
		m := contRe.FindStringSubmatch(strings.TrimSpace(l))
		if m == nil {
			continue
		}
		body := m[2]
		if body == "" {
			continue
		}
		if i := strings.Index(body, " //"); i >= 0 && !strings.Contains(body[:i], `"`) {
			body = strings.TrimSpace(body[:i])
		}
		if len(m[1]) >= 3 && len(ds) > 0 { // continuation
			ds[len(ds)-1].text += " " + body
			continue
		}
		ds = append(ds, dline{body, ln})
	}
	prop := ""
	var cur *FuncContract
	var lastLemma *Clause
	for _, d := range ds {
		word, rest := splitWord(d.text)
		if word == "template" {
			// contract templates for generated code: instantiated by gen.go, not contracts of this package
			break
		}
		switch word {
		case "property":
			prop = strings.TrimSpace(rest)
		case "import":
			a, p := splitWord(rest)
			p = strings.Trim(strings.TrimSpace(p), `"`)
			sf.Imports = append(sf.Imports, [2]string{a, p})
		case "ghost":
			a, t := splitWord(rest)
			sf.Ghosts = append(sf.Ghosts, [2]string{a, strings.TrimSpace(t)})
		case "type":
			sf.Types = append(sf.Types, rest)
		case "spec":
			kind, r2 := splitWord(rest)
			opaque := false
			if kind == "opaque" {
				opaque = true
				kind, r2 = splitWord(r2)
			}
			fn, err := parseSpecFunc(kind, r2)
			if err != nil {
				return nil, fmt.Errorf("%s:%d: %v", path, d.line, err)
			}
			fn.Opaque = opaque
			fn.Prop = prop
			fn.Line = d.line
			sf.Funcs = append(sf.Funcs, fn)
		case "lemma", "axiom":
			i := strings.Index(rest, ":")
			if i < 0 {
				return nil, fmt.Errorf("%s:%d: lemma needs name:", path, d.line)
			}
			g, err := translateSpecExpr(rest[i+1:])
			if err != nil {
				return nil, fmt.Errorf("%s:%d: %v", path, d.line, err)
			}
			c := &Clause{Kind: word, Prop: prop, Text: strings.TrimSpace(rest[i+1:]), GoExpr: g, Label: strings.TrimSpace(rest[:i]), File: path, Line: d.line}
			if word == "lemma" {
				sf.Lemmas = append(sf.Lemmas, c)
			} else {
				sf.Axioms = append(sf.Axioms, c)
			}
			lastLemma = c
		case "func":
			lastLemma = nil
			cur = &FuncContract{Name: strings.TrimSpace(rest), Loops: map[int][]*Clause{}, Props: map[string]bool{}, File: path, Line: d.line, Safety: true, Frame: true}
			if prop != "" {
				cur.Props[prop] = true
				cur.Primary = prop
			}
			sf.Contracts = append(sf.Contracts, cur)
		case "requires", "ensures":
			if cur == nil {
				return nil, fmt.Errorf("%s:%d: %s outside func", path, d.line, word)
			}
			label := ""
			if strings.HasPrefix(rest, "[") {
				j := strings.Index(rest, "]")
				label = rest[1:j]
				rest = rest[j+1:]
			}
			g, err := translateSpecExpr(rest)
			if err != nil {
				return nil, fmt.Errorf("%s:%d: %v", path, d.line, err)
			}
			c := &Clause{Kind: word, Prop: prop, Text: strings.TrimSpace(rest), GoExpr: g, Label: label, File: path, Line: d.line}
			if word == "requires" {
				cur.Requires = append(cur.Requires, c)
			} else {
				cur.Ensures = append(cur.Ensures, c)
			}
			if prop != "" {
				cur.Props[prop] = true
			}
		case "modifies":
			if cur == nil {
				return nil, fmt.Errorf("%s:%d: modifies outside func", path, d.line)
			}
			cur.ModGiven = true
			for _, l := range splitTop(rest, ',') {
				l = strings.TrimSpace(l)
				switch {
				case l == "nothing" || l == "":
				case l == "heap":
					cur.ModHeap = true
				case strings.HasPrefix(l, "subtree(") && strings.HasSuffix(l, ")"):
					// every field of every struct type reachable from the (pointer to a) struct: type-level frame
					cur.Modifies = append(cur.Modifies, &ModLoc{Kind: "subtree", Text: l[8 : len(l)-1]})
				case strings.HasPrefix(l, "elems(") && strings.HasSuffix(l, ")"):
					cur.Modifies = append(cur.Modifies, &ModLoc{Kind: "elems", Text: l[6 : len(l)-1]})
				case strings.HasPrefix(l, "ghost(") && strings.HasSuffix(l, ")"):
					cur.Modifies = append(cur.Modifies, &ModLoc{Kind: "ghost", Text: l[6 : len(l)-1]})
				case strings.HasSuffix(l, "[*]"):
					cur.Modifies = append(cur.Modifies, &ModLoc{Kind: "mapall", Text: l[:len(l)-3]})
				case strings.HasPrefix(l, "*"):
					cur.Modifies = append(cur.Modifies, &ModLoc{Kind: "cell", Text: l[1:]})
				default:
					i := strings.LastIndex(l, ".")
					if i < 0 {
						return nil, fmt.Errorf("%s:%d: bad modifies location %q", path, d.line, l)
					}
					cur.Modifies = append(cur.Modifies, &ModLoc{Kind: "field", Text: l[:i], Fld: l[i+1:]})
				}
			}
		case "loop":
			if cur == nil {
				return nil, fmt.Errorf("%s:%d: loop outside func", path, d.line)
			}
			ns, r2 := splitWord(rest)
			n, err := strconv.Atoi(ns)
			if err != nil {
				return nil, fmt.Errorf("%s:%d: loop ordinal: %v", path, d.line, err)
			}
			k, r3 := splitWord(r2)
			if k != "invariant" {
				return nil, fmt.Errorf("%s:%d: only 'loop N invariant' supported", path, d.line)
			}
			g, err := translateSpecExpr(r3)
			if err != nil {
				return nil, fmt.Errorf("%s:%d: %v", path, d.line, err)
			}
			cur.Loops[n] = append(cur.Loops[n], &Clause{Kind: "invariant", Prop: prop, Text: strings.TrimSpace(r3), GoExpr: g, Loop: n, File: path, Line: d.line})
		case "reveal":
			var names []string
			for _, n := range strings.Split(rest, ",") {
				if n = strings.TrimSpace(n); n != "" {
					names = append(names, n)
				}
			}
			if lastLemma != nil {
				lastLemma.Reveal = append(lastLemma.Reveal, names...)
			} else if cur != nil {
				cur.Reveal = append(cur.Reveal, names...)
			}
		case "records":
			if cur == nil {
				return nil, fmt.Errorf("%s:%d: records outside func", path, d.line)
			}
			i := strings.Index(rest, "+=")
			if i < 0 {
				return nil, fmt.Errorf("%s:%d: records needs `ghost += expr`", path, d.line)
			}
			cur.Records = append(cur.Records, &ModLoc{Kind: "record", Fld: strings.TrimSpace(rest[:i]), Text: strings.TrimSpace(rest[i+2:])})
		case "unreachable":
			if cur != nil {
				cur.Unreachable = append(cur.Unreachable, strings.TrimSpace(rest))
			}
		case "uses":
			for _, n := range strings.Split(rest, ",") {
				if n = strings.TrimSpace(n); n != "" && lastLemma != nil {
					lastLemma.Uses = append(lastLemma.Uses, n)
				}
			}
		case "inline", "pure", "opaque":
			if cur != nil {
				cur.Mode = word
			}
		case "assumed":
			if cur != nil {
				cur.Assumed = true
			}
		case "bounded":
			if cur != nil {
				cur.Bounded = true
			}
		case "safety":
			if cur != nil {
				r := strings.TrimSpace(rest)
				cur.Safety = r != "none"
				if r != "none" && r != "all" && r != "" {
					cur.SafetyProp = r
					cur.Props[r] = true
				}
			}
		case "frame":
			if cur != nil {
				r := strings.TrimSpace(rest)
				cur.Frame = r != "none"
				if r != "none" && r != "all" && r != "" {
					cur.FrameProp = r
					cur.Props[r] = true
				}
			}
		default:
			return nil, fmt.Errorf("%s:%d: unknown directive %q", path, d.line, word)
		}
	}
	return sf, nil
}

func splitWord(s string) (string, string) {
	s = strings.TrimSpace(s)
	i := strings.IndexAny(s, " \t")
	if i < 0 {
		return s, ""
	}
	return s[:i], strings.TrimSpace(s[i+1:])
}

func splitTop(s string, sep byte) []string {
	var out []string
	d := 0
	last := 0
	for i := 0; i < len(s); i++ {
		switch s[i] {
		case '(', '[', '{':
			d++
		case ')', ']', '}':
			d--
		default:
			if s[i] == sep && d == 0 {
				out = append(out, s[last:i])
				last = i + 1
			}
		}
	}
	out = append(out, s[last:])
	return out
}

// parseSpecFunc: "name(params) ret = expr" or (uf) "name(params) ret"
func parseSpecFunc(kind, s string) (*SpecFunc, error) {
	i := strings.Index(s, "(")
	if i < 0 {
		return nil, fmt.Errorf("spec func: missing (")
	}
	name := strings.TrimSpace(s[:i])
	d := 0
	j := i
	for ; j < len(s); j++ {
		if s[j] == '(' {
			d++
		} else if s[j] == ')' {
			d--
			if d == 0 {
				break
			}
		}
	}
	params := s[i+1 : j]
	rest := strings.TrimSpace(s[j+1:])
	fn := &SpecFunc{Name: name, Params: params}
	switch kind {
	case "uf":
		fn.UF = true
		fn.Ret = rest
		return fn, nil
	case "pred", "func":
		k := strings.Index(rest, "=")
		// find first top-level '=' that is not part of ==
		k = -1
		for x := 0; x < len(rest); x++ {
			if rest[x] == '=' {
				if x+1 < len(rest) && rest[x+1] == '=' {
					x++
					continue
				}
				k = x
				break
			}
		}
		if k < 0 {
			return nil, fmt.Errorf("spec func %s: missing =", name)
		}
		fn.Ret = strings.TrimSpace(rest[:k])
		if kind == "pred" || fn.Ret == "" {
			fn.Ret = "bool"
		}
		g, err := translateSpecExpr(rest[k+1:])
		if err != nil {
			return nil, fmt.Errorf("spec func %s: %v", name, err)
		}
		fn.Body = g
		return fn, nil
	}
	return nil, fmt.Errorf("unknown spec kind %q", kind)
}

// ---------- spec expression -> Go expression ----------

type stok struct {
	tok token.Token
	lit string
	pos int
	end int
}

const (
	tIMPLIES token.Token = token.Token(1000 + iota)
	tIFF
	tQUEST
	tDCOLON
)

func tokenize(src string) ([]stok, error) {
	fset := token.NewFileSet()
	file := fset.AddFile("spec", -1, len(src))
	var s scanner.Scanner
	var errs []string
	s.Init(file, []byte(src), func(pos token.Position, msg string) {
		if !strings.Contains(msg, "illegal character U+003F") {
			errs = append(errs, msg)
		}
	}, 0)
	var toks []stok
	for {
		pos, tok, lit := s.Scan()
		if tok == token.EOF {
			break
		}
		if tok == token.SEMICOLON && lit == "\n" {
			continue
		}
		p := int(pos) - file.Base()
		text := lit
		if text == "" {
			text = tok.String()
		}
		if tok == token.ILLEGAL && strings.HasPrefix(src[p:], "?") {
			toks = append(toks, stok{tQUEST, "?", p, p + 1})
			continue
		}
		toks = append(toks, stok{tok, text, p, p + len(text)})
	}
	if len(errs) > 0 {
		return nil, fmt.Errorf("scan %q: %s", src, strings.Join(errs, "; "))
	}
	// merge ==> , <==> , ::
	var out []stok
	for i := 0; i < len(toks); i++ {
		t := toks[i]
		adj := func(k int) bool { return i+k < len(toks) && toks[i+k-1].end == toks[i+k].pos }
		switch {
		case t.tok == token.LEQ && adj(1) && adj(2) && toks[i+1].tok == token.ASSIGN && toks[i+2].tok == token.GTR:
			out = append(out, stok{tIFF, "<==>", t.pos, toks[i+2].end})
			i += 2
		case t.tok == token.LEQ && adj(1) && toks[i+1].tok == token.GEQ: // "<=" ">=" cannot happen; kept for safety
			out = append(out, t)
		case t.tok == token.EQL && adj(1) && toks[i+1].tok == token.GTR:
			out = append(out, stok{tIMPLIES, "==>", t.pos, toks[i+1].end})
			i++
		case t.tok == token.COLON && adj(1) && toks[i+1].tok == token.COLON:
			out = append(out, stok{tDCOLON, "::", t.pos, toks[i+1].end})
			i++
		default:
			out = append(out, t)
		}
	}
	return out, nil
}

type sparser struct {
	toks []stok
	i    int
}

func (p *sparser) peek() *stok {
	if p.i < len(p.toks) {
		return &p.toks[p.i]
	}
	return nil
}

var specBuiltins = map[string]string{
	"in": "V_in", "old": "V_old", "fresh": "V_fresh", "dyn": "V_dyn", "dom": "V_dom",
	"isnil": "V_isnil", "typeis": "V_typeis", "allocated": "V_allocated", "unchanged": "V_unchanged",
	"seqlen": "V_seqlen", "seqat": "V_seqat", "kindof": "V_kindof", "payloadInt": "V_payloadInt",
	"payloadStr": "V_payloadStr", "payloadF64": "V_payloadF64", "payloadBool": "V_payloadBool", "boxof": "V_boxof",
	"isIntegral": "V_isIntegral", "isFinite": "V_isFinite", "toReal": "V_toReal", "hasPrefix": "V_hasPrefix", "hasSuffix": "V_hasSuffix", "contains": "V_contains", "after": "V_after",
	"elemsfresh": "V_elemsfresh", "sameslice": "V_sameslice", "samebase": "V_samebase", "realOfInt": "V_realOfInt", "real": "V_real",
	"rlt": "V_rlt", "rle": "V_rle", "req": "V_req", "isNaN": "V_isNaN", "fresherThan": "V_fresherThan",
	"concat": "V_concat", "sliceprefix": "V_sliceprefix", "runeCount": "V_runeCount", "first": "V_first", "second": "V_second", "runeAt": "V_runeAt", "strcat": "V_strcat", "fnv32": "V_fnv32", "nonNilPayload": "V_nonNilPayload", "strOfSeq": "V_strOfSeq", "payloadRef": "V_payloadRef", "cap": "cap", "sameref": "V_sameref", "comparable": "V_comparable", "distinctbase": "V_distinctbase",
	"itoa": "V_itoa", "atoi": "V_atoi", "parseIntOk": "V_parseIntOk", "parseUintOk": "V_parseUintOk", "isDecimal": "V_isDecimal", "parseFloat": "V_parseFloat", "isDecInt": "V_isDecInt",
}

func translateSpecExpr(src string) (string, error) {
	toks, err := tokenize(src)
	if err != nil {
		return "", err
	}
	p := &sparser{toks: toks}
	s, err := p.parseExpr(stopSet{})
	if err != nil {
		return "", fmt.Errorf("%v in %q", err, src)
	}
	if p.i != len(p.toks) {
		return "", fmt.Errorf("trailing tokens at %q in %q", p.toks[p.i].lit, src)
	}
	return s, nil
}

type stopSet struct {
	colon bool // ':' terminates (ternary else / slice)
	comma bool
}

func (p *sparser) parseExpr(st stopSet) (string, error) {
	// quantifier?
	if t := p.peek(); t != nil && t.tok == token.IDENT && (t.lit == "forall" || t.lit == "exists") {
		// look ahead for '::' to make sure it is a quantifier
		q := t.lit
		p.i++
		start := p.i
		for p.i < len(p.toks) && p.toks[p.i].tok != tDCOLON {
			p.i++
		}
		if p.i >= len(p.toks) {
			return "", fmt.Errorf("quantifier without ::")
		}
		binders := joinToks(p.toks[start:p.i])
		p.i++
		body, err := p.parseExpr(st)
		if err != nil {
			return "", err
		}
		return fmt.Sprintf("V_%s(func(%s) bool { return %s })", q, binders, body), nil
	}
	return p.parseIff(st)
}

func joinToks(ts []stok) string {
	var b strings.Builder
	for i, t := range ts {
		if i > 0 && needSpace(ts[i-1], t) {
			b.WriteByte(' ')
		}
		b.WriteString(t.lit)
	}
	return b.String()
}

func needSpace(a, b stok) bool { return true }

func (p *sparser) parseIff(st stopSet) (string, error) {
	l, err := p.parseImpl(st)
	if err != nil {
		return "", err
	}
	for {
		t := p.peek()
		if t == nil || t.tok != tIFF {
			return l, nil
		}
		p.i++
		r, err := p.parseImpl(st)
		if err != nil {
			return "", err
		}
		l = fmt.Sprintf("V_iff(%s, %s)", l, r)
	}
}

func (p *sparser) parseImpl(st stopSet) (string, error) {
	l, err := p.parseCond(st)
	if err != nil {
		return "", err
	}
	if t := p.peek(); t != nil && t.tok == tIMPLIES {
		p.i++
		var r string
		if t2 := p.peek(); t2 != nil && t2.tok == token.IDENT && (t2.lit == "forall" || t2.lit == "exists") {
			r, err = p.parseExpr(st)
		} else {
			r, err = p.parseImpl(st)
		}
		if err != nil {
			return "", err
		}
		return fmt.Sprintf("V_implies(%s, %s)", l, r), nil
	}
	return l, nil
}

func (p *sparser) parseCond(st stopSet) (string, error) {
	c, err := p.parseChunk(st)
	if err != nil {
		return "", err
	}
	if t := p.peek(); t != nil && t.tok == tQUEST {
		p.i++
		a, err := p.parseExpr(stopSet{colon: true, comma: st.comma})
		if err != nil {
			return "", err
		}
		if t := p.peek(); t == nil || t.tok != token.COLON {
			return "", fmt.Errorf("ternary: expected ':'")
		}
		p.i++
		b, err := p.parseCond(st)
		if err != nil {
			return "", err
		}
		return fmt.Sprintf("V_ite(%s, %s, %s)", c, a, b), nil
	}
	return c, nil
}

// parseChunk consumes ordinary Go tokens up to a low-precedence spec operator.
func (p *sparser) parseChunk(st stopSet) (string, error) {
	var b strings.Builder
	var prev *stok
	n := 0
	for {
		t := p.peek()
		if t == nil {
			break
		}
		if t.tok == tIMPLIES || t.tok == tIFF || t.tok == tQUEST || t.tok == tDCOLON {
			break
		}
		if t.tok == token.RPAREN || t.tok == token.RBRACK || t.tok == token.RBRACE {
			break
		}
		if t.tok == token.COLON && st.colon {
			break
		}
		if t.tok == token.COMMA && st.comma {
			break
		}
		if prev != nil && needSpace(*prev, *t) {
			b.WriteByte(' ')
		}
		switch t.tok {
		case token.LPAREN, token.LBRACK, token.LBRACE:
			closeTok := map[token.Token]token.Token{token.LPAREN: token.RPAREN, token.LBRACK: token.RBRACK, token.LBRACE: token.RBRACE}[t.tok]
			b.WriteString(t.lit)
			p.i++
			first := true
			for {
				t2 := p.peek()
				if t2 == nil {
					return "", fmt.Errorf("unclosed %s", t.lit)
				}
				if t2.tok == closeTok {
					b.WriteString(t2.lit)
					p.i++
					prev = t2
					break
				}
				if !first {
					if t2.tok == token.COMMA || t2.tok == token.COLON {
						b.WriteString(t2.lit)
						if t2.tok == token.COMMA {
							b.WriteByte(' ')
						}
						p.i++
						// allow empty slice bound
						if t3 := p.peek(); t3 != nil && (t3.tok == closeTok || t3.tok == token.COLON) {
							continue
						}
					} else {
						return "", fmt.Errorf("expected , or %s, got %q", closeTok, t2.lit)
					}
				} else if t2.tok == token.COLON { // s[:j]
					first = false
					continue
				}
				first = false
				e, err := p.parseExpr(stopSet{colon: t.tok == token.LBRACK || t.tok == token.LBRACE, comma: true})
				if err != nil {
					return "", err
				}
				b.WriteString(e)
			}
			n++
			continue
		case token.IDENT:
			if (t.lit == "forall" || t.lit == "exists") && n > 0 && (prev == nil || prev.tok != token.PERIOD) {
				q, err := p.parseExpr(st)
				if err != nil {
					return "", err
				}
				b.WriteString(q)
				return strings.TrimSpace(b.String()), nil
			}
			lit := t.lit
			if g, ok := specBuiltins[lit]; ok && (prev == nil || prev.tok != token.PERIOD) {
				if nx := p.i + 1; nx < len(p.toks) && (p.toks[nx].tok == token.LPAREN || (p.toks[nx].tok == token.LBRACK && (lit == "typeis" || lit == "payloadRef"))) {
					lit = g
				}
			}
			b.WriteString(lit)
		default:
			b.WriteString(t.lit)
		}
		prev = t
		p.i++
		n++
	}
	if n == 0 {
		return "", fmt.Errorf("empty expression")
	}
	return strings.TrimSpace(b.String()), nil
}

// prelude of the synthetic file (declared once per package).
const synthPrelude = `
type V_Set[K comparable] map[K]bool
type V_Seq[T any] []T
func V_forall(f any) bool { return true }
func V_exists(f any) bool { return true }
func V_implies(a, b bool) bool { return !a || b }
func V_iff(a, b bool) bool { return a == b }
func V_ite[T any](c bool, a, b T) T { if c { return a }; return b }
func V_in[K any](k K, c any) bool { return true }
func V_old[T any](x T) T { return x }
func V_fresh(x any) bool { return true }
func V_elemsfresh(x any) bool { return true }
func V_fresherThan(x any, y any) bool { return true }
func V_sameslice(x, y any) bool { return true }
func V_sameref(x, y any) bool { return true }
func V_comparable(x any) bool { return true }
func V_distinctbase(x, y any) bool { return true }
func V_itoa(x int) string { return "" }
func V_atoi(s string) int { return 0 }
func V_parseIntOk(s string, bits int) bool { return true }
func V_parseUintOk(s string, bits int) bool { return true }
func V_isDecimal(s string) bool { return true }
func V_isDecInt(s string) bool { return true }
func V_parseFloat(s string) float64 { return 0 }
func V_sliceprefix(x, y any) bool { return true }
func V_runeCount(s string) int { return 0 }
func V_fnv32(s string) int { return 0 }
func V_nonNilPayload(x any) bool { return true }
func V_runeAt(s string, i int) rune { return 0 }
func V_first[A, B any](a A, b B) A { return a }
func V_second[A, B any](a A, b B) B { return b }
func V_allocated(x any) bool { return true }
func V_unchanged(x any) bool { return true }
func V_isnil(x any) bool { return true }
func V_dyn(x any) int { return 0 }
func V_typeis[T any](x any) bool { return true }
func V_kindof(x any) int { return 0 }
func V_payloadInt(x any) int { return 0 }
func V_payloadStr(x any) string { return "" }
func V_payloadF64(x any) float64 { return 0 }
func V_payloadBool(x any) bool { return false }
func V_payloadRef[T any](x any) T { var z T; return z }
func V_boxof(x any) any { return x }
func V_dom[K comparable, V any](m map[K]V) V_Set[K] { return nil }
func V_seqlen[T any](s V_Seq[T]) int { return 0 }
func V_seqat[T any](s V_Seq[T], i int) T { var z T; return z }
func V_concat[T any](a, b V_Seq[T]) V_Seq[T] { return nil }
func V_isIntegral(f float64) bool { return true }
func V_isFinite(f float64) bool { return true }
func V_isNaN(f float64) bool { return true }
type V_Real struct{ x int }
func V_toReal(f float64) V_Real { return V_Real{} }
func V_realOfInt(i int) V_Real { return V_Real{} }
func V_real(s string) V_Real { return V_Real{} }
func V_rlt(a, b V_Real) bool { return true }
func V_rle(a, b V_Real) bool { return true }
func V_req(a, b V_Real) bool { return true }
func V_hasPrefix(s, p string) bool { return true }
func V_hasSuffix(s, p string) bool { return true }
func V_samebase(a, b any) bool { return true }
func V_contains(s, p string) bool { return true }
func V_after(s, sep string) string { return "" }
`
