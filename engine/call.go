package main

import (
	"fmt"
	"go/ast"
	"go/token"
	"go/types"
	"sort"
	"strings"
)

func unparen(e ast.Expr) ast.Expr {
	for {
		p, ok := e.(*ast.ParenExpr)
		if !ok {
			return e
		}
		e = p.X
	}
}

func (c *FnCtx) funcValue(f *types.Func) string {
	return "fn!" + sanitize(f.FullName())
}

func (c *FnCtx) closureValue(lit *ast.FuncLit) string {
	c.nfresh++
	return fmt.Sprintf("closure!%d", c.nfresh)
}

func funcFullKey(f *types.Func) string {
	sig := f.Type().(*types.Signature)
	pkg := ""
	if f.Pkg() != nil {
		pkg = f.Pkg().Path()
	}
	if sig.Recv() == nil {
		return pkg + "." + f.Name()
	}
	rt := sig.Recv().Type()
	star := ""
	if p, ok := rt.(*types.Pointer); ok {
		star = "*"
		rt = p.Elem()
	}
	name := ""
	if n, ok := types.Unalias(rt).(*types.Named); ok {
		name = n.Obj().Name()
	} else {
		name = rt.String()
	}
	return pkg + ".(" + star + name + ")." + f.Name()
}

func (c *FnCtx) evalCall(x *ast.CallExpr, st *State) []string {
	info := c.info()
	fun := unparen(x.Fun)
	// conversion
	if tv, ok := info.Types[fun]; ok && tv.IsType() {
		return []string{c.evalConversion(x, tv.Type, st)}
	}
	// builtin
	if id, ok := fun.(*ast.Ident); ok {
		if b, ok := info.Uses[id].(*types.Builtin); ok {
			return c.evalBuiltin(x, b.Name(), st)
		}
	}
	var fobj *types.Func
	var recvExpr ast.Expr
	switch f := fun.(type) {
	case *ast.Ident:
		switch o := info.Uses[f].(type) {
		case *types.Func:
			fobj = o
		case *types.Var:
			return c.callClosureVar(x, o, st)
		}
	case *ast.SelectorExpr:
		if s := info.Selections[f]; s != nil {
			if s.Kind() == types.MethodVal {
				fobj, _ = s.Obj().(*types.Func)
				recvExpr = f.X
			} else if s.Kind() == types.FieldVal {
				// call of a function-typed field
				return c.opaqueCall(x, "field-func "+c.src(fun), st, true)
			}
		} else if o, ok := info.Uses[f.Sel].(*types.Func); ok {
			fobj = o
		} else if v, ok := info.Uses[f.Sel].(*types.Var); ok {
			_ = v
			return c.opaqueCall(x, "func-var "+c.src(fun), st, true)
		}
	case *ast.IndexExpr:
		// generic function instantiation f[T](...)
		if id, ok := unparen(f.X).(*ast.Ident); ok {
			if o, ok := info.Uses[id].(*types.Func); ok {
				fobj = o
			}
		}
	case *ast.FuncLit:
		return c.inlineClosure(&closure{lit: f, fr: c.fr}, x, st)
	}
	if fobj == nil {
		return c.opaqueCall(x, "dynamic "+c.src(fun), st, true)
	}
	if strings.HasPrefix(fobj.Name(), "V_") {
		return []string{c.evalSpecBuiltin(x, fobj, st)}
	}
	return c.callFunc(x, fobj, recvExpr, st)
}

// evalArgs evaluates receiver and arguments and converts them to the parameter types.
func (c *FnCtx) evalArgs(x *ast.CallExpr, fobj *types.Func, recvExpr ast.Expr, st *State) (recv string, args []string) {
	sig := fobj.Type().(*types.Signature)
	if recvExpr != nil {
		recv = c.eval(recvExpr, st)
		rt := c.typeOf(recvExpr)
		want := sig.Recv().Type()
		_, wantPtr := want.Underlying().(*types.Pointer)
		_, havePtr := rt.Underlying().(*types.Pointer)
		if isIface(want) {
			// interface method: receiver stays as is
		} else if wantPtr && !havePtr {
			// implicit &x
			if id, ok := unparen(recvExpr).(*ast.Ident); ok {
				if b, ok := st.vars[c.info().Uses[id]]; ok && b.cell {
					recv = b.term
				} else {
					c.fail(x.Pos(), "implicit address-of receiver %s not modelled", id.Name)
				}
			} else {
				c.fail(x.Pos(), "implicit address-of receiver not modelled")
			}
		} else if !wantPtr && havePtr {
			c.safety(st, "nilderef", c.src(recvExpr), not(eq(recv, "0")), x.Pos())
			recv = c.loadThrough(st, recv, rt.Underlying().(*types.Pointer).Elem())
		}
	}
	np := sig.Params().Len()
	if len(x.Args) == 1 && np > 1 {
		// f(g()) with multi-value g
		vals := c.evalMulti(x.Args[0], st)
		return recv, vals
	}
	for i, a := range x.Args {
		var pt types.Type
		if sig.Variadic() && i >= np-1 {
			st := sig.Params().At(np - 1).Type().(*types.Slice)
			if x.Ellipsis.IsValid() {
				pt = st
			} else {
				pt = st.Elem()
			}
		} else if i < np {
			pt = sig.Params().At(i).Type()
		}
		v := c.eval(a, st)
		v = c.convertTo(v, c.info().TypeOf(a), pt, st)
		args = append(args, v)
	}
	if sig.Variadic() && !x.Ellipsis.IsValid() {
		fixed := np - 1
		extra := args[fixed:]
		vt := sig.Params().At(np - 1).Type().(*types.Slice)
		var packed string
		if len(extra) == 0 {
			packed = "nilSlice"
		} else {
			base := c.newRef(st, "varargs")
			an, asrt := c.elemsArr(vt.Elem())
			row := sel(c.h(st, an, asrt), base)
			for i, v := range extra {
				row = store(row, fmt.Sprint(i), v)
			}
			c.setH(st, an, asrt, store(c.h(st, an, asrt), base, row))
			packed = fmt.Sprintf("(mkSlice %s 0 %d %d)", base, len(extra), len(extra))
		}
		args = append(append([]string{}, args[:fixed]...), packed)
	}
	return recv, args
}

func (c *FnCtx) calleeDecl(fobj *types.Func) (*Pkg, *ast.FuncDecl) {
	if fobj.Pkg() == nil {
		return nil, nil
	}
	p := c.prog.Pkgs[fobj.Pkg().Path()]
	if p == nil {
		return nil, nil
	}
	origin := fobj.Origin()
	key := strings.TrimPrefix(funcFullKey(origin), p.Path+".")
	fd := p.funcs[key]
	return p, fd
}

func (c *FnCtx) callFunc(x *ast.CallExpr, fobj *types.Func, recvExpr ast.Expr, st *State) []string {
	sig := fobj.Type().(*types.Signature)
	key := funcFullKey(fobj.Origin())
	if recvExpr != nil {
		rt := c.typeOf(recvExpr)
		if p, ok := rt.Underlying().(*types.Pointer); ok {
			rt = p.Elem()
		}
		if isBufferType(rt) {
			return c.bufferCall(x, fobj, recvExpr, st)
		}
	}
	// interface method call
	if recvExpr != nil && isIface(sig.Recv().Type()) {
		if m, ok := libModels[key]; ok {
			recv, args := c.evalArgs(x, fobj, recvExpr, st)
			return m(c, x, fobj, append([]string{recv}, args...), st)
		}
		if con := c.prog.Contracts[key]; con != nil {
			recv, args := c.evalArgs(x, fobj, recvExpr, st)
			return c.callByContract(con, fobj, recv, args, st, x.Pos())
		}
		recv, args := c.evalArgs(x, fobj, recvExpr, st)
		return c.pureUF("im!"+sanitize(key), fobj, append([]string{recv}, args...), st, true)
	}
	// spec function (synthetic file)?
	p, fd := c.calleeDecl(fobj)
	if p != nil && fd != nil && p.Synth != nil && c.prog.Fset.File(fd.Pos()) == c.prog.Fset.File(p.Synth.Pos()) {
		_, args := c.evalArgs(x, fobj, nil, st)
		return []string{c.applySpecFunc(p, fd, fobj, args, st)}
	}
	if m, ok := libModels[key]; ok {
		recv, args := c.evalArgs(x, fobj, recvExpr, st)
		if recvExpr != nil {
			args = append([]string{recv}, args...)
		}
		return m(c, x, fobj, args, st)
	}
	con := c.prog.Contracts[key]
	if con != nil && con.Mode != "inline" {
		recv, args := c.evalArgs(x, fobj, recvExpr, st)
		if con.Mode == "pure" {
			all := args
			if recvExpr != nil {
				all = append([]string{recv}, args...)
			}
			res := c.pureUF("pf!"+sanitize(key), fobj, all, st, false)
			if c.specMode == 0 && len(con.Ensures) > 0 {
				// a pure function with a (verified) contract: its result is the uninterpreted function of the
				// arguments, and the postconditions are known facts about it
				names, resNames := c.paramNames(fobj.Origin())
				bind := map[string]string{}
				for i, n := range names {
					if i < len(all) {
						bind[n] = all[i]
					}
				}
				for i, n := range resNames {
					if i < len(res) {
						bind[n] = res[i]
					}
				}
				saveOld := c.oldState
				c.oldState = st
				for _, cl := range con.Requires {
					g := c.evalClause(cl, c.prog.Pkgs[con.Pkg], bind, st)
					save := c.curProp
					c.curProp = cl.Prop
					c.oblige(st, "pre", fmt.Sprintf("call[%s].pre", fobj.Name()), g, x.Pos(), cl.Text)
					c.curProp = save
					st.addFact(g)
				}
				for _, cl := range con.Ensures {
					st.addFact(c.evalClause(cl, c.prog.Pkgs[con.Pkg], bind, st))
				}
				c.oldState = saveOld
			}
			return res
		}
		if con.Mode == "opaque" {
			return c.opaqueResults(fobj, key, st, true)
		}
		return c.callByContract(con, fobj, recv, args, st, x.Pos())
	}
	if con == nil && isPureLibrary(fobj) && fobj.Pkg() != nil && strings.HasPrefix(fobj.Pkg().Path(), "github.com/openconfig/ygot") {
		// debug-print helpers: no-ops for verification purposes
		recv, args := c.evalArgs(x, fobj, recvExpr, st)
		all := args
		if recvExpr != nil {
			all = append([]string{recv}, args...)
		}
		c.abstractions["pure-uf:"+key] = true
		return c.pureUF("lib!"+sanitize(key), fobj, all, st, false)
	}
	if fd != nil && fd.Body != nil && (con != nil && con.Mode == "inline" || c.autoInline(p, fd)) {
		recv, args := c.evalArgs(x, fobj, recvExpr, st)
		return c.inlineCall(p, fd, fobj, recv, recvExpr != nil, args, st, x.Pos())
	}
	// library / unknown
	recv, args := c.evalArgs(x, fobj, recvExpr, st)
	all := args
	if recvExpr != nil {
		all = append([]string{recv}, args...)
	}
	if isPureLibrary(fobj) {
		c.abstractions["pure-uf:"+key] = true
		return c.pureUF("lib!"+sanitize(key), fobj, all, st, false)
	}
	return c.opaqueResults(fobj, key, st, true)
}

var inlinePkgs = []string{"github.com/openconfig/ygot/", "github.com/openconfig/gnmi/proto/gnmi", "github.com/openconfig/goyang/pkg/yang", "verifgen/"}

func (c *FnCtx) autoInline(p *Pkg, fd *ast.FuncDecl) bool {
	ok := false
	for _, pre := range inlinePkgs {
		if strings.HasPrefix(p.Path, pre) || p.Path+"/" == pre {
			ok = true
		}
	}
	if !ok || fd.Body == nil {
		return false
	}
	if c.inlineDepth >= 5 {
		return false
	}
	if fn := c.prog.Fset.Position(fd.Pos()).Filename; strings.HasSuffix(fn, ".pb.go") && fd.Name.Name == "ProtoReflect" {
		return false // protobuf runtime plumbing (unsafe / interior pointers): an opaque call
	}
	// small and loop-free, non-recursive
	n := 0
	bad := false
	ast.Inspect(fd.Body, func(nd ast.Node) bool {
		switch y := nd.(type) {
		case *ast.ForStmt, *ast.RangeStmt, *ast.GoStmt, *ast.SelectStmt, *ast.DeferStmt, *ast.FuncLit:
			bad = true
		case ast.Stmt:
			n++
		case *ast.CallExpr:
			if id, ok := unparen(y.Fun).(*ast.Ident); ok && id.Name == fd.Name.Name && fd.Recv == nil {
				bad = true
			}
			if se, ok := unparen(y.Fun).(*ast.SelectorExpr); ok && se.Sel.Name == fd.Name.Name && fd.Recv != nil {
				bad = true
			}
		}
		return true
	})
	return !bad && n <= 14
}

func isPureLibrary(f *types.Func) bool {
	if f.Pkg() == nil {
		return true
	}
	switch f.Pkg().Path() {
	case "fmt", "strings", "strconv", "errors", "unicode/utf8", "unicode", "math", "path", "path/filepath", "encoding/base64", "bytes", "regexp", "hash/fnv", "math/big":
		return true
	case "reflect":
		switch f.Name() {
		case "TypeOf", "ValueOf", "DeepEqual", "Kind", "Type", "Elem", "Len", "Int", "Uint", "Float", "String", "Bool", "IsNil", "IsValid", "Interface", "Index", "NumField", "Field", "Name", "Size", "Implements", "IsZero", "MapKeys", "MapIndex", "Zero", "CanInterface", "Indirect", "FieldByName", "CanAddr":
			return true
		}
	case "github.com/openconfig/ygot/util":
		switch f.Name() {
		case "DbgPrint", "DbgSchema", "DbgErr", "ValueStr", "ValueStrDebug", "SchemaTreeString", "DataSchemaTreesString", "IndentedDebugPrint", "Indent", "Dedent", "ResetIndent", "DbgPrintln":
			return true
		}
	case "github.com/golang/glog", "log":
		return true
	case "google.golang.org/grpc/status", "google.golang.org/grpc/codes":
		return true
	}
	return false
}

// pureUF models a call as an uninterpreted function of its arguments.
func (c *FnCtx) pureUF(name string, fobj *types.Func, args []string, st *State, recvIsIface bool) []string {
	sig := fobj.Type().(*types.Signature)
	var argSorts []string
	if sig.Recv() != nil {
		argSorts = append(argSorts, c.tt.sortOf(sig.Recv().Type()))
	}
	for i := 0; i < sig.Params().Len(); i++ {
		argSorts = append(argSorts, c.tt.sortOf(sig.Params().At(i).Type()))
	}
	if len(argSorts) != len(args) {
		// arity mismatch (f(g()) forms): fall back to fresh results
		return c.freshResults(sig, fobj.Name(), st)
	}
	var out []string
	for i := 0; i < sig.Results().Len(); i++ {
		rt := sig.Results().At(i).Type()
		fn := fmt.Sprintf("%s!%d", name, i)
		c.declareFun(fn, argSorts, c.tt.sortOf(rt))
		t := app(fn, args...)
		if c.specMode == 0 {
			t = c.name(st, fobj.Name(), t, c.tt.sortOf(rt))
			if inv := c.typeInv(st, t, rt, 0); inv != "true" {
				st.addFact(inv)
			}
		}
		out = append(out, t)
	}
	return out
}

func (c *FnCtx) freshResults(sig *types.Signature, name string, st *State) []string {
	var out []string
	for i := 0; i < sig.Results().Len(); i++ {
		rt := sig.Results().At(i).Type()
		r := c.fresh("r_"+name, c.tt.sortOf(rt))
		st.addFact(c.typeInv(st, r, rt, 0))
		out = append(out, r)
	}
	return out
}

func (c *FnCtx) opaqueResults(fobj *types.Func, key string, st *State, havoc bool) []string {
	if c.specMode > 0 {
		panic(unsupported{"opaque call " + key + " inside a specification"})
	}
	c.abstractions["opaque:"+key] = true
	if havoc {
		c.havocAll(st)
	}
	return c.freshResults(fobj.Type().(*types.Signature), fobj.Name(), st)
}

func (c *FnCtx) opaqueCall(x *ast.CallExpr, what string, st *State, havoc bool) []string {
	if c.specMode > 0 {
		c.fail(x.Pos(), "opaque call %s inside a specification", what)
	}
	for _, a := range x.Args {
		c.evalMulti(a, st)
	}
	c.abstractions["opaque:"+what] = true
	if havoc {
		c.havocAll(st)
	}
	t := c.info().TypeOf(x)
	var out []string
	switch tt := t.(type) {
	case *types.Tuple:
		for i := 0; i < tt.Len(); i++ {
			r := c.fresh("r_opaque", c.tt.sortOf(tt.At(i).Type()))
			st.addFact(c.typeInv(st, r, tt.At(i).Type(), 0))
			out = append(out, r)
		}
	default:
		if t != nil {
			r := c.fresh("r_opaque", c.tt.sortOf(t))
			st.addFact(c.typeInv(st, r, t, 0))
			out = append(out, r)
		}
	}
	return out
}

// ---------- inlining ----------

type mergedRet struct {
	st   *State
	vals []string
}

func (c *FnCtx) mergeRets(rets []retRec, sig *types.Signature) (*State, []string) {
	if len(rets) == 0 {
		return nil, nil
	}
	cur := rets[0]
	for _, r := range rets[1:] {
		p := commonPrefix(cur.st.hyps, r.st.hyps)
		var tmp []Hyp
		ga := c.guardOf(cur.st, cur.st.hyps[p:], &tmp)
		m := c.merge(cur.st, r.st)
		// guard definition (if any) must be in the merged state; merge() re-derives its own, add ours too
		m.hyps = append(m.hyps, tmp...)
		vals := make([]string, len(cur.vals))
		for i := range cur.vals {
			v := ite(ga, cur.vals[i], r.vals[i])
			vals[i] = c.nameM(m, "ret", v, c.tt.sortOf(sig.Results().At(i).Type()))
		}
		cur = retRec{m, vals}
	}
	return cur.st, cur.vals
}

func (c *FnCtx) inlineCall(p *Pkg, fd *ast.FuncDecl, fobj *types.Func, recv string, hasRecv bool, args []string, st *State, pos token.Pos) []string {
	sig := p.Info.Defs[fd.Name].Type().(*types.Signature)
	if c.specMode > 0 {
		return c.pureInline(p, fd, sig, recv, hasRecv, args, st)
	}
	if c.inlineDepth > 8 {
		c.fail(pos, "inline depth exceeded at %s", fd.Name.Name)
	}
	var rets []retRec
	nf := &frame{pkg: p, fd: fd, sig: sig, rets: &rets}
	saveFr := c.fr
	c.fr = nf
	c.inlineDepth++
	c.bindParams(p, fd, sig, recv, hasRecv, args, st, nf)
	o := c.execBlock(fd.Body.List, st)
	if o.normal != nil {
		var vals []string
		for _, rv := range nf.results {
			vals = append(vals, c.readVar(o.normal, rv, pos))
		}
		rets = append(rets, retRec{o.normal, vals})
	}
	c.inlineDepth--
	c.fr = saveFr
	if len(rets) == 0 {
		// callee never returns (panics on all paths)
		st.addFact("false")
		return c.freshResults(sig, fd.Name.Name, st)
	}
	ms, vals := c.mergeRets(rets, sig)
	*st = *ms
	return vals
}

func (c *FnCtx) bindParams(p *Pkg, fd *ast.FuncDecl, sig *types.Signature, recv string, hasRecv bool, args []string, st *State, nf *frame) {
	if fd.Recv != nil && len(fd.Recv.List) > 0 && len(fd.Recv.List[0].Names) > 0 {
		if obj := p.Info.Defs[fd.Recv.List[0].Names[0]]; obj != nil {
			delete(st.vars, obj)
			c.declareLocal(st, obj, recv)
		}
	}
	i := 0
	for _, f := range fd.Type.Params.List {
		if len(f.Names) == 0 {
			i++
			continue
		}
		for _, nm := range f.Names {
			if obj := p.Info.Defs[nm]; obj != nil && i < len(args) {
				delete(st.vars, obj)
				c.declareLocal(st, obj, args[i])
			}
			i++
		}
	}
	nf.results = nil
	if fd.Type.Results != nil {
		for _, f := range fd.Type.Results.List {
			for _, nm := range f.Names {
				if obj := p.Info.Defs[nm]; obj != nil {
					v := obj.(*types.Var)
					delete(st.vars, obj)
					c.declareLocal(st, obj, c.zero(v.Type()))
					nf.results = append(nf.results, v)
				}
			}
		}
	}
}

// pureInline evaluates a simple function body as a term (spec mode).
func (c *FnCtx) pureInline(p *Pkg, fd *ast.FuncDecl, sig *types.Signature, recv string, hasRecv bool, args []string, st *State) []string {
	env := map[types.Object]string{}
	if fd.Recv != nil && len(fd.Recv.List) > 0 && len(fd.Recv.List[0].Names) > 0 {
		env[p.Info.Defs[fd.Recv.List[0].Names[0]]] = recv
	}
	i := 0
	for _, f := range fd.Type.Params.List {
		if len(f.Names) == 0 {
			i++
			continue
		}
		for _, nm := range f.Names {
			if i < len(args) {
				env[p.Info.Defs[nm]] = args[i]
			}
			i++
		}
	}
	saveFr := c.fr
	c.fr = &frame{pkg: p, fd: fd, sig: sig}
	c.specEnv = append(c.specEnv, env)
	defer func() {
		c.specEnv = c.specEnv[:len(c.specEnv)-1]
		c.fr = saveFr
	}()
	v := c.pureBody(fd.Body.List, st, fd, sig)
	return []string{v}
}

func (c *FnCtx) pureBody(stmts []ast.Stmt, st *State, fd *ast.FuncDecl, sig *types.Signature) string {
	if len(stmts) == 0 {
		c.fail(fd.Pos(), "function %s is not a pure expression body", fd.Name.Name)
	}
	switch s := stmts[0].(type) {
	case *ast.ReturnStmt:
		if len(s.Results) != 1 {
			c.fail(s.Pos(), "pure inline needs a single result")
		}
		v := c.eval(s.Results[0], st)
		return c.convertTo(v, c.typeOf(s.Results[0]), sig.Results().At(0).Type(), st)
	case *ast.IfStmt:
		if s.Init != nil {
			as, ok := s.Init.(*ast.AssignStmt)
			if !ok || as.Tok != token.DEFINE || len(as.Rhs) != 1 {
				c.fail(s.Pos(), "pure inline: if with unsupported init")
			}
			vals := c.evalMulti(as.Rhs[0], st)
			if len(vals) != len(as.Lhs) {
				c.fail(s.Pos(), "pure inline: init arity")
			}
			for i, l := range as.Lhs {
				if id, ok := l.(*ast.Ident); ok && id.Name != "_" {
					if obj := c.info().Defs[id]; obj != nil {
						c.specEnv[len(c.specEnv)-1][obj] = vals[i]
					}
				}
			}
		}
		cond := c.eval(s.Cond, st)
		// a branch that falls through continues with the statements after the if
		a := c.pureBody(append(append([]ast.Stmt{}, s.Body.List...), stmts[1:]...), st, fd, sig)
		var rest []ast.Stmt
		if s.Else != nil {
			if blk, ok := s.Else.(*ast.BlockStmt); ok {
				rest = append(append([]ast.Stmt{}, blk.List...), stmts[1:]...)
			} else {
				rest = append([]ast.Stmt{s.Else}, stmts[1:]...)
			}
		} else {
			rest = stmts[1:]
		}
		b := c.pureBody(rest, st, fd, sig)
		return ite(cond, a, b)
	case *ast.BlockStmt:
		return c.pureBody(append(append([]ast.Stmt{}, s.List...), stmts[1:]...), st, fd, sig)
	case *ast.AssignStmt:
		if s.Tok == token.DEFINE && len(s.Lhs) == 1 && len(s.Rhs) == 1 {
			if id, ok := s.Lhs[0].(*ast.Ident); ok {
				v := c.eval(s.Rhs[0], st)
				c.specEnv[len(c.specEnv)-1][c.info().Defs[id]] = v
				return c.pureBody(stmts[1:], st, fd, sig)
			}
		}
	}
	c.fail(stmts[0].Pos(), "function %s cannot be used inside a specification (not a pure expression body)", fd.Name.Name)
	return ""
}

// applySpecFunc expands a spec function (or applies a UF).
func (c *FnCtx) applySpecFunc(p *Pkg, fd *ast.FuncDecl, fobj *types.Func, args []string, st *State) string {
	sig := fobj.Type().(*types.Signature)
	key := p.Path + "." + fd.Name.Name
	if sf := c.prog.SpecFns[key]; sf != nil && sf.UF {
		var argSorts []string
		for i := 0; i < sig.Params().Len(); i++ {
			argSorts = append(argSorts, c.tt.sortOf(sig.Params().At(i).Type()))
		}
		fn := "uf!" + sanitize(p.Name+"."+fd.Name.Name)
		c.declareFun(fn, argSorts, c.tt.sortOf(sig.Results().At(0).Type()))
		return app(fn, args...)
	}
	if sf := c.prog.SpecFns[key]; sf != nil && sf.Opaque && !c.revealed[fd.Name.Name] && c.unroll == 0 {
		return c.applyOpaque(p, fd, sig, key, args, st)
	}
	if c.inlineDepth > 24 {
		c.fail(fd.Pos(), "spec function expansion too deep (recursive spec function %s?)", fd.Name.Name)
	}
	c.inlineDepth++
	c.specMode++
	defer func() { c.inlineDepth--; c.specMode-- }()
	// let-bind long arguments
	var lets []string
	for i, a := range args {
		if len(a) > 40 {
			c.nfresh++
			n := fmt.Sprintf("a!%d", c.nfresh)
			lets = append(lets, "("+n+" "+a+")")
			args[i] = n
		}
	}
	v := c.pureInline(p, fd, sig, "", false, args, st)[0]
	if len(lets) > 0 {
		v = "(let (" + strings.Join(lets, " ") + ") " + v + ")"
	}
	return v
}

// applyOpaque applies an opaque spec function: an uninterpreted function of the heap arrays its
// definition reads (in their current state) and of its arguments.
func (c *FnCtx) applyOpaque(p *Pkg, fd *ast.FuncDecl, sig *types.Signature, key string, args []string, st *State) string {
	if c.opaqueDeps == nil {
		c.opaqueDeps = map[string][]string{}
	}
	deps, ok := c.opaqueDeps[key]
	if !ok {
		// evaluate the body once with dummy arguments to learn which heap arrays it reads
		saveRec := c.recordBases
		c.recordBases = map[string]string{}
		var dummy []string
		for i := 0; i < sig.Params().Len(); i++ {
			c.nfresh++
			dummy = append(dummy, fmt.Sprintf("dummy!%d", c.nfresh))
		}
		c.revealed[fd.Name.Name] = true
		c.inlineDepth++
		c.specMode++
		scratch := st.clone()
		c.pureInline(p, fd, sig, "", false, dummy, scratch)
		c.specMode--
		c.inlineDepth--
		delete(c.revealed, fd.Name.Name)
		for b := range c.recordBases {
			deps = append(deps, b)
			if saveRec != nil {
				saveRec[b] = c.recordBases[b]
			}
		}
		sort.Strings(deps)
		c.recordBases = saveRec
		c.opaqueDeps[key] = deps
	}
	var argSorts, all []string
	for _, b := range deps {
		argSorts = append(argSorts, c.heapSort[b])
		all = append(all, c.h(st, b, c.heapSort[b]))
	}
	for i := 0; i < sig.Params().Len(); i++ {
		argSorts = append(argSorts, c.tt.sortOf(sig.Params().At(i).Type()))
	}
	all = append(all, args...)
	fn := "op!" + sanitize(p.Name+"."+fd.Name.Name)
	c.declareFun(fn, argSorts, c.tt.sortOf(sig.Results().At(0).Type()))
	return app(fn, all...)
}

// ---------- closures ----------

func (c *FnCtx) callClosureVar(x *ast.CallExpr, v *types.Var, st *State) []string {
	cl := c.closures[v]
	if cl == nil {
		return c.opaqueCall(x, "func-value "+v.Name(), st, true)
	}
	return c.inlineClosure(cl, x, st)
}

func (c *FnCtx) inlineClosure(cl *closure, x *ast.CallExpr, st *State) []string {
	if c.specMode > 0 {
		c.fail(x.Pos(), "closure call in specification")
	}
	sig := c.fr.pkg.Info.TypeOf(cl.lit).(*types.Signature)
	var args []string
	for i, a := range x.Args {
		v := c.eval(a, st)
		if i < sig.Params().Len() {
			v = c.convertTo(v, c.typeOf(a), sig.Params().At(i).Type(), st)
		}
		args = append(args, v)
	}
	var rets []retRec
	nf := &frame{pkg: cl.fr.pkg, fd: cl.fr.fd, sig: sig, rets: &rets, litDepth: cl.fr.litDepth + 1}
	saveFr := c.fr
	c.fr = nf
	c.inlineDepth++
	i := 0
	for _, f := range cl.lit.Type.Params.List {
		for _, nm := range f.Names {
			if obj := nf.pkg.Info.Defs[nm]; obj != nil && i < len(args) {
				delete(st.vars, obj)
				c.declareLocal(st, obj, args[i])
			}
			i++
		}
		if len(f.Names) == 0 {
			i++
		}
	}
	if cl.lit.Type.Results != nil {
		for _, f := range cl.lit.Type.Results.List {
			for _, nm := range f.Names {
				if obj := nf.pkg.Info.Defs[nm]; obj != nil {
					c.declareLocal(st, obj, c.zero(obj.Type()))
					nf.results = append(nf.results, obj.(*types.Var))
				}
			}
		}
	}
	o := c.execBlock(cl.lit.Body.List, st)
	if o.normal != nil {
		var vals []string
		for _, rv := range nf.results {
			vals = append(vals, c.readVar(o.normal, rv, x.Pos()))
		}
		if len(vals) == 0 && sig.Results().Len() > 0 {
			c.fail(x.Pos(), "closure falls off the end with results")
		}
		rets = append(rets, retRec{o.normal, vals})
	}
	c.inlineDepth--
	c.fr = saveFr
	if len(rets) == 0 {
		st.addFact("false")
		return c.freshResults(sig, "closure", st)
	}
	ms, vals := c.mergeRets(rets, sig)
	*st = *ms
	return vals
}

// ---------- contracts ----------

func (c *FnCtx) paramNames(fobj *types.Func) (names []string, resNames []string) {
	sig := fobj.Type().(*types.Signature)
	nm := func(v *types.Var, d string) string {
		if v.Name() == "" || v.Name() == "_" {
			return d
		}
		return v.Name()
	}
	if sig.Recv() != nil {
		names = append(names, nm(sig.Recv(), "recv"))
	}
	for i := 0; i < sig.Params().Len(); i++ {
		names = append(names, nm(sig.Params().At(i), fmt.Sprintf("p%d", i)))
	}
	for i := 0; i < sig.Results().Len(); i++ {
		d := "result"
		if sig.Results().Len() > 1 {
			d = fmt.Sprintf("result%d", i)
		}
		resNames = append(resNames, nm(sig.Results().At(i), d))
	}
	return
}

func (c *FnCtx) callByContract(con *FuncContract, fobj *types.Func, recv string, args []string, st *State, pos token.Pos) []string {
	if c.specMode > 0 {
		c.fail(pos, "call of contracted function %s inside a specification", fobj.Name())
	}
	sig := fobj.Type().(*types.Signature)
	calleePkg := c.prog.Pkgs[con.Pkg]
	origin := fobj.Origin()
	names, resNames := c.paramNames(origin)
	bind := map[string]string{}
	all := args
	if sig.Recv() != nil {
		all = append([]string{recv}, args...)
	}
	for i, n := range names {
		if i < len(all) {
			bind[n] = c.name(st, "arg_"+n, all[i], c.tt.sortOf(paramType(origin, i)))
		}
	}
	if con.Assumed {
		c.assumedUsed[con.Pkg+"."+con.Name] = true
	}
	label := "call[" + fobj.Name() + "]"
	for i, cl := range con.Requires {
		g := c.evalClause(cl, calleePkg, bind, st)
		save := c.curProp
		c.curProp = cl.Prop
		c.oblige(st, "pre", fmt.Sprintf("%s.pre[%d]", label, i), g, pos, cl.Text)
		c.curProp = save
		st.addFact(g)
	}
	pre := st.clone()
	// havoc
	needAlloc := con.ModHeap
	for _, cl := range con.Ensures {
		if strings.Contains(cl.GoExpr, "V_fresh") || strings.Contains(cl.GoExpr, "V_elemsfresh") || strings.Contains(cl.GoExpr, "V_allocated") {
			needAlloc = true
		}
	}
	if con.ModHeap || (!con.Frame && !con.ModGiven && !con.Assumed) {
		// unknown or unchecked frame: the callee may modify anything
		c.havocAll(st)
	} else {
		for _, m := range con.Modifies {
			c.havocLoc(m, calleePkg, bind, pre, st, pos)
		}
		if needAlloc {
			oldAlloc := c.alloc(st)
			na := c.fresh("alloc", "(Array Int Bool)")
			st.heap["alloc"] = na
			c.monotoneAlloc(st, oldAlloc, na)
			st.addDef(not(sel(na, "0")))
		}
	}
	// caller's frame must cover the callee's
	c.coverModifies(con, calleePkg, bind, pre, st, pos, fobj.Name())
	var out []string
	for i := 0; i < sig.Results().Len(); i++ {
		rt := sig.Results().At(i).Type()
		r := c.fresh("r_"+fobj.Name(), c.tt.sortOf(rt))
		st.addFact(c.typeInv(st, r, rt, 0))
		bind[resNames[i]] = r
		out = append(out, r)
	}
	saveOld := c.oldState
	c.oldState = pre
	for _, cl := range con.Ensures {
		st.addFact(c.evalClause(cl, calleePkg, bind, st))
	}
	c.oldState = saveOld
	return out
}

func paramType(f *types.Func, i int) types.Type {
	sig := f.Type().(*types.Signature)
	if sig.Recv() != nil {
		if i == 0 {
			return sig.Recv().Type()
		}
		i--
	}
	return sig.Params().At(i).Type()
}

func (c *FnCtx) havocLoc(m *ModLoc, pkg *Pkg, bind map[string]string, pre, st *State, pos token.Pos) {
	if m.Kind == "ghost" {
		for _, g := range strings.Split(m.Text, ",") {
			g = strings.TrimSpace(g)
			base := ghostBase(pkg, g)
			srt := c.ghostSort(pkg, g)
			c.heapSort[base] = srt
			st.heap[base] = c.fresh("gh_"+g, srt)
			c.heapAxioms(st, base, st.heap[base])
		}
		return
	}
	args := map[string]string{}
	for _, n := range m.Params {
		args[n] = bind[n]
	}
	obj := c.evalSynth(m.GoFn, pkg, args, pre, true)
	ot := c.synthResultType(m.GoFn, pkg)
	switch m.Kind {
	case "subtree":
		bases := c.subtreeBases(ot)
		for _, b := range sortedKeys(bases) {
			c.heapSort[b] = bases[b]
			st.heap[b] = c.fresh("hv_"+b, bases[b])
			c.heapAxioms(st, b, st.heap[b])
		}
		for _, b := range sortedKeys(bases) {
			if ax := c.closureAxiom(st.heap[b], b, c.alloc(st)); ax != "" {
				st.addDef(ax)
			}
		}
	case "field":
		pt, ok := ot.Underlying().(*types.Pointer)
		if !ok {
			c.fail(pos, "modifies %s.%s: not a pointer", m.Text, m.Fld)
		}
		n, srt := c.fieldArr(pt.Elem(), m.Fld)
		ft := fieldType(pt.Elem(), m.Fld)
		nv := c.fresh("mod_"+m.Fld, c.tt.sortOf(ft))
		c.setH(st, n, srt, store(c.h(st, n, srt), obj, nv))
		st.addFact(c.typeInv(st, nv, ft, 0))
	case "mapall":
		mt, ok := ot.Underlying().(*types.Map)
		if !ok {
			c.fail(pos, "modifies %s[*]: not a map", m.Text)
		}
		dn, ds, vn, vs := c.mapArrs(mt)
		ks := c.tt.sortOf(mt.Key())
		nd := c.fresh("mod_dom", "(Array "+ks+" Bool)")
		nv := c.fresh("mod_val", "(Array "+ks+" "+c.tt.sortOf(mt.Elem())+")")
		// a nil map stays empty
		c.setH(st, dn, ds, store(c.h(st, dn, ds), obj, ite(eq(obj, "0"), "((as const (Array "+ks+" Bool)) false)", nd)))
		c.setH(st, vn, vs, store(c.h(st, vn, vs), obj, nv))
	case "elems":
		sl, ok := ot.Underlying().(*types.Slice)
		if !ok {
			c.fail(pos, "modifies elems(%s): not a slice", m.Text)
		}
		n, srt := c.elemsArr(sl.Elem())
		nr := c.fresh("mod_row", "(Array Int "+c.tt.sortOf(sl.Elem())+")")
		c.setH(st, n, srt, store(c.h(st, n, srt), "(sbase "+obj+")", nr))
	case "cell":
		pt, ok := ot.Underlying().(*types.Pointer)
		if !ok {
			c.fail(pos, "modifies *%s: not a pointer", m.Text)
		}
		n, srt := c.cellArr(pt.Elem())
		nv := c.fresh("mod_cell", c.tt.sortOf(pt.Elem()))
		c.setH(st, n, srt, store(c.h(st, n, srt), obj, nv))
	}
}

func fieldType(structT types.Type, name string) types.Type {
	s := structT.Underlying().(*types.Struct)
	for i := 0; i < s.NumFields(); i++ {
		if s.Field(i).Name() == name {
			return s.Field(i).Type()
		}
	}
	return nil
}

// coverModifies: every location the callee may modify must be modifiable by the caller (or fresh).
func (c *FnCtx) coverModifies(con *FuncContract, pkg *Pkg, bind map[string]string, pre, st *State, pos token.Pos, fname string) {
	if !c.frameOn || c.con == nil || c.con.ModHeap {
		return
	}
	if con.ModHeap {
		save := c.curProp
		c.curProp = c.frameProp()
		c.oblige(st, "frame", "frame[call "+fname+" modifies heap]", "false", pos, "callee modifies heap")
		c.curProp = save
		return
	}
	for _, m := range con.Modifies {
		if m.Kind == "ghost" {
			continue
		}
		args := map[string]string{}
		for _, n := range m.Params {
			args[n] = bind[n]
		}
		obj := c.evalSynth(m.GoFn, pkg, args, pre, true)
		ot := c.synthResultType(m.GoFn, pkg)
		switch m.Kind {
		case "subtree":
			// type-level: the callee's field arrays must be among the caller's
			mine := map[string]string{}
			if c.con != nil {
				for _, m2 := range c.con.Modifies {
					if m2.Kind == "subtree" {
						for b, s := range c.subtreeBases(c.synthResultType(m2.GoFn, c.pkg)) {
							mine[b] = s
						}
					}
				}
			}
			covered := c.con != nil && c.con.ModHeap
			if !covered {
				covered = true
				for b := range c.subtreeBases(ot) {
					if _, ok := mine[b]; !ok {
						covered = false
					}
				}
			}
			if !covered && c.frameOn {
				save := c.curProp
				c.curProp = c.frameProp()
				c.oblige(pre, "frame", "frame[call "+fname+": subtree("+m.Text+")]", "false", pos, "call "+fname+": subtree("+m.Text+") is not within the caller's modifies")
				c.curProp = save
			}
		case "field":
			c.frameCheckField(pre, obj, ot.Underlying().(*types.Pointer).Elem(), m.Fld, "call "+fname+": "+m.Text+"."+m.Fld, pos)
		case "mapall":
			c.frameCheck(pre, "map", obj, "call "+fname+": "+m.Text+"[*]", pos)
		case "elems":
			// elems(x.f) of a nil x denotes nothing (the callee cannot write through a nil pointer)
			for _, m2 := range con.Modifies {
				if m2.Kind == "field" && m2.Text+"."+m2.Fld == m.Text {
					a2 := map[string]string{}
					for _, n := range m2.Params {
						a2[n] = bind[n]
					}
					c.frameExtraAllow = eq(c.evalSynth(m2.GoFn, pkg, a2, pre, true), "0")
				}
			}
			c.frameCheck(pre, "elems", "(sbase "+obj+")", "call "+fname+": elems("+m.Text+")", pos)
			c.frameExtraAllow = ""
		case "cell":
			c.frameCheck(pre, "cell", obj, "call "+fname+": *"+m.Text, pos)
		}
	}
}

// ghostBase: ghost globals are package-level variables of the synthetic file; same naming as other globals.
func ghostBase(pkg *Pkg, name string) string { return "G!" + pkg.Name + "." + name }

func (c *FnCtx) ghostSort(pkg *Pkg, name string) string {
	obj := pkg.Types.Scope().Lookup(name)
	if obj == nil {
		panic(unsupported{"unknown ghost " + name})
	}
	return c.tt.sortOf(obj.Type())
}

func (c *FnCtx) synthDecl(goFn string, pkg *Pkg) *ast.FuncDecl {
	fd := pkg.funcs[goFn]
	if fd == nil {
		panic(unsupported{"synthetic function " + goFn + " not found in " + pkg.Path})
	}
	return fd
}

func (c *FnCtx) synthResultType(goFn string, pkg *Pkg) types.Type {
	fd := c.synthDecl(goFn, pkg)
	rs := fd.Body.List[0].(*ast.ReturnStmt)
	return pkg.Info.TypeOf(rs.Results[0])
}

// evalSynth evaluates the body expression of a synthetic function with named arguments bound.
func (c *FnCtx) evalSynth(goFn string, pkg *Pkg, args map[string]string, st *State, raw bool) string {
	fd := c.synthDecl(goFn, pkg)
	env := map[types.Object]string{}
	for _, f := range fd.Type.Params.List {
		for _, nm := range f.Names {
			obj := pkg.Info.Defs[nm]
			v, ok := args[nm.Name]
			if !ok {
				panic(unsupported{fmt.Sprintf("no value for %s in %s", nm.Name, goFn)})
			}
			env[obj] = v
		}
	}
	saveFr := c.fr
	c.fr = &frame{pkg: pkg, fd: fd, sig: pkg.Info.Defs[fd.Name].Type().(*types.Signature)}
	c.specEnv = append(c.specEnv, env)
	c.specMode++
	defer func() {
		c.specMode--
		c.specEnv = c.specEnv[:len(c.specEnv)-1]
		c.fr = saveFr
	}()
	rs := fd.Body.List[0].(*ast.ReturnStmt)
	return c.eval(rs.Results[0], st)
}

func (c *FnCtx) evalClause(cl *Clause, pkg *Pkg, args map[string]string, st *State) string {
	a := map[string]string{}
	for _, n := range cl.Params {
		v, ok := args[n]
		if !ok {
			panic(unsupported{fmt.Sprintf("clause %q: no value for %s", cl.Text, n)})
		}
		a[n] = v
	}
	return c.evalSynth(cl.GoFn, pkg, a, st, false)
}

// checkPost emits the postcondition obligations at a return of the function under verification.
func (c *FnCtx) checkPost(st *State, vals []string, pos token.Pos) {
	if c.con == nil {
		return
	}
	bind := map[string]string{}
	for k, v := range c.paramTerms {
		bind[k] = v
	}
	for i, n := range c.resultNames {
		if i < len(vals) {
			bind[n] = vals[i]
		}
	}
	// reachability of this return under the contract's assumptions (vacuity guard)
	if c.unroll == 0 {
		save := c.curProp
		c.curProp = "*"
		nb := len(c.obls)
		c.oblige(st, "reach", "reach@"+c.retSite, "false", pos, "return site reachable: "+c.retSite)
		for _, u := range c.con.Unreachable {
			if u == c.retSite {
				for _, o := range c.obls[nb:] {
					o.DeclaredUnreachable = true
				}
			}
		}
		c.curProp = save
	}
	c.framePost(st, pos)
	saveOld := c.oldState
	c.oldState = c.entry
	for i, cl := range c.con.Ensures {
		g := c.evalClause(cl, c.pkg, bind, st)
		save := c.curProp
		c.curProp = cl.Prop
		lbl := cl.Label
		if lbl == "" {
			lbl = fmt.Sprint(i)
		}
		nBefore := len(c.obls)
		c.oblige(st, "post", "post["+lbl+"]@"+c.retSite, g, pos, cl.Text)
		for _, o := range c.obls[nBefore:] {
			o.ResultTerms = vals
			o.Cl = cl
		}
		c.curProp = save
	}
	c.oldState = saveOld
}

// scanCallWrites records the heap effects of a call for loop havoc.
func (c *FnCtx) scanCallWrites(x *ast.CallExpr, li *loopInfo) {
	info := c.info()
	fun := unparen(x.Fun)
	if tv, ok := info.Types[fun]; ok && tv.IsType() {
		if sl, ok := tv.Type.Underlying().(*types.Slice); ok {
			li.heapBases["alloc"] = true
			n, _ := c.elemsArr(sl.Elem())
			li.heapBases[n] = true
		}
		return
	}
	if id, ok := fun.(*ast.Ident); ok {
		if b, ok := info.Uses[id].(*types.Builtin); ok {
			switch b.Name() {
			case "append", "copy":
				if sl, ok := info.TypeOf(x.Args[0]).Underlying().(*types.Slice); ok {
					n, _ := c.elemsArr(sl.Elem())
					li.heapBases[n] = true
					li.heapBases["alloc"] = true
				}
			case "delete":
				if mt, ok := info.TypeOf(x.Args[0]).Underlying().(*types.Map); ok {
					dn, _, _, _ := c.mapArrs(mt)
					li.heapBases[dn] = true
				}
			case "make", "new":
				li.heapBases["alloc"] = true
				t := info.TypeOf(x.Args[0])
				switch u := t.Underlying().(type) {
				case *types.Slice:
					n, _ := c.elemsArr(u.Elem())
					li.heapBases[n] = true
				case *types.Map:
					dn, _, vn, _ := c.mapArrs(u)
					li.heapBases[dn] = true
					li.heapBases[vn] = true
				case *types.Struct:
					for i := 0; i < u.NumFields(); i++ {
						n, _ := c.fieldArr(t, u.Field(i).Name())
						li.heapBases[n] = true
					}
				default:
					n, _ := c.cellArr(t)
					li.heapBases[n] = true
				}
			}
			return
		}
	}
	var fobj *types.Func
	isIfaceCall := false
	switch f := fun.(type) {
	case *ast.Ident:
		switch o := info.Uses[f].(type) {
		case *types.Func:
			fobj = o
		case *types.Var:
			if c.closures[o] != nil {
				return // body scanned where the literal appears (inside the function)
			}
		}
	case *ast.SelectorExpr:
		if s := info.Selections[f]; s != nil {
			if s.Kind() == types.MethodVal {
				fobj, _ = s.Obj().(*types.Func)
				isIfaceCall = isIface(s.Recv())
				if rt := info.TypeOf(f.X); rt != nil && isBufferType(rt) {
					if id, ok := unparen(f.X).(*ast.Ident); ok {
						if o := info.Uses[id]; o != nil {
							li.assignedVars[o] = true
						}
					}
					return
				}
			}
		} else if o, ok := info.Uses[f.Sel].(*types.Func); ok {
			fobj = o
		}
	case *ast.IndexExpr:
		if id, ok := unparen(f.X).(*ast.Ident); ok {
			if o, ok := info.Uses[id].(*types.Func); ok {
				fobj = o
			}
		}
	case *ast.FuncLit:
		return
	}
	if fobj == nil {
		li.heapAll = true
		return
	}
	if strings.HasPrefix(fobj.Name(), "V_") {
		return
	}
	key := funcFullKey(fobj.Origin())
	if con := c.prog.Contracts[key]; con != nil && con.Mode != "inline" {
		if con.Mode == "pure" {
			return
		}
		if con.ModHeap || con.Mode == "opaque" {
			li.heapAll = true
			return
		}
		li.heapBases["alloc"] = true
		pkg := c.prog.Pkgs[con.Pkg]
		for _, m := range con.Modifies {
			if m.Kind == "ghost" {
				for _, g := range strings.Split(m.Text, ",") {
					base := ghostBase(pkg, strings.TrimSpace(g))
					li.heapBases[base] = true
					c.eng.baseSorts[base] = c.ghostSort(pkg, strings.TrimSpace(g))
				}
				continue
			}
			ot := c.synthResultType(m.GoFn, pkg)
			switch m.Kind {
			case "subtree":
				for b, s := range c.subtreeBases(ot) {
					li.heapBases[b] = true
					c.eng.baseSorts[b] = s
				}
			case "field":
				n, s := c.fieldArr(ot.Underlying().(*types.Pointer).Elem(), m.Fld)
				li.heapBases[n] = true
				c.eng.baseSorts[n] = s
			case "mapall":
				dn, ds, vn, vs := c.mapArrs(ot.Underlying().(*types.Map))
				li.heapBases[dn], li.heapBases[vn] = true, true
				c.eng.baseSorts[dn], c.eng.baseSorts[vn] = ds, vs
			case "elems":
				n, s := c.elemsArr(ot.Underlying().(*types.Slice).Elem())
				li.heapBases[n] = true
				c.eng.baseSorts[n] = s
			case "cell":
				n, s := c.cellArr(ot.Underlying().(*types.Pointer).Elem())
				li.heapBases[n] = true
				c.eng.baseSorts[n] = s
			}
		}
		return
	}
	if isIfaceCall {
		return // modelled as pure UF
	}
	if _, ok := libModels[key]; ok {
		li.heapBases["alloc"] = true
		return
	}
	p, fd := c.calleeDecl(fobj)
	if fd != nil && fd.Body != nil && p.Synth != nil && c.prog.Fset.File(fd.Pos()) == c.prog.Fset.File(p.Synth.Pos()) {
		return
	}
	con := c.prog.Contracts[key]
	if con == nil && isPureLibrary(fobj) {
		return
	}
	if fd != nil && fd.Body != nil && (con != nil && con.Mode == "inline" || c.autoInline(p, fd)) {
		if c.inlineDepth > 6 {
			li.heapAll = true
			return
		}
		saveFr := c.fr
		c.fr = &frame{pkg: p, fd: fd}
		c.inlineDepth++
		sub := c.scanWrites([]ast.Node{fd.Body})
		c.inlineDepth--
		c.fr = saveFr
		for k := range sub.heapBases {
			li.heapBases[k] = true
		}
		if sub.heapAll {
			li.heapAll = true
		}
		return
	}
	if isPureLibrary(fobj) {
		return
	}
	li.heapAll = true
}

// framePost: "modifies" is established by the per-store frame obligations (every store targets a fresh object
// or a listed location) and by covering the callees' modifies clauses. A function without any such site gets one
// syntactic obligation so that the frame claim is still counted.
func (c *FnCtx) framePost(st *State, pos token.Pos) {
	if !c.frameOn || c.con == nil || c.con.ModHeap || !c.con.ModGiven || c.unroll > 0 || c.frameNoted {
		return
	}
	for _, o := range c.obls {
		if o.Kind == "frame" {
			return
		}
	}
	c.frameNoted = true
	save := c.curProp
	c.curProp = c.frameProp()
	c.oblige(st, "frame", "frame.nostores", "true", pos, "no store to a pre-existing object and no modifying callee on any path so far")
	c.curProp = save
}

// frameInvariant: objects that existed at function entry keep their contents in a loop-havocked heap array,
// except the locations listed in `modifies`. Justified by the per-store frame obligations of the same function.
func (c *FnCtx) frameInvariant(base, newArr string) string {
	if !c.frameOn || c.con == nil || c.con.ModHeap || !c.con.ModGiven {
		return ""
	}
	if !(strings.HasPrefix(base, "F!") || strings.HasPrefix(base, "MD!") || strings.HasPrefix(base, "MV!") || strings.HasPrefix(base, "C!")) {
		return ""
	}
	entryAlloc := c.heapName("alloc", 0)
	c.declare(entryAlloc, "(Array Int Bool)")
	ent := c.heapName(base, 0)
	c.declare(ent, c.heapSort[base])
	exc := []string{}
	for _, m := range c.con.Modifies {
		switch m.Kind {
		case "field":
			if pt, ok := c.synthResultType(m.GoFn, c.pkg).Underlying().(*types.Pointer); ok {
				if n, _ := c.fieldArr(pt.Elem(), m.Fld); n == base {
					exc = append(exc, not(eq("r", c.evalModObj(m))))
				}
			}
		case "mapall":
			if mt, ok := c.synthResultType(m.GoFn, c.pkg).Underlying().(*types.Map); ok {
				dn, _, vn, _ := c.mapArrs(mt)
				if dn == base || vn == base {
					exc = append(exc, not(eq("r", c.evalModObj(m))))
				}
			}
		case "cell":
			if pt, ok := c.synthResultType(m.GoFn, c.pkg).Underlying().(*types.Pointer); ok {
				if n, _ := c.cellArr(pt.Elem()); n == base {
					exc = append(exc, not(eq("r", c.evalModObj(m))))
				}
			}
		}
	}
	return "(forall ((r Int)) (! " + implies(and(append([]string{sel(entryAlloc, "r")}, exc...)...), eq(sel(newArr, "r"), sel(ent, "r"))) + " :pattern ((select " + newArr + " r))))"
}
