package main

// Generated-code properties (C15, C17, C33, C34): the verified text is the output of the working tree's
// generator on a schema corpus, produced on every run into a scratch module outside /repo and /verif.
// The contracts are templates kept next to the generator's own templates (/repo/gogen/zz_contracts_verif.go,
// build tag verif) and instantiated here once per generated type that matches a template's shape.
//
// What the binder takes from where (so that the contracts do not depend on the helpers they specify):
//   - list shapes (ordered map types, keyed-list map fields) from the generated struct declarations;
//   - the key leaves of each list from the YANG source (goyang `key` statement of the list the struct's doc
//     comment names), mapped to Go fields through the `path` struct tags;
//   - whether a key leaf is a pointer ("scalar") or value (enumeration, union) field from the field's Go type.

import (
	"fmt"
	"go/ast"
	"go/parser"
	"go/token"
	"os"
	"os/exec"
	"path/filepath"
	"regexp"
	"sort"
	"strconv"
	"strings"

	"github.com/openconfig/goyang/pkg/yang"
)

type GenCorpus struct {
	Pkg     string   // package (and directory) name
	Yang    []string // schema files (absolute)
	Path    string   // yang include path
	Flags   []string
	Comment string
	// TolerateErr: type errors of the generated package matching this pattern do not stop the load (a recorded
	// finding makes the generator emit redeclared constants; the table literal is still verified)
	TolerateErr string
	// PathStructs: also generate the path-struct API (ypathgen) into the same package (needs -compress_paths)
	PathStructs bool
}

// toleratedGenErrs: generated package path suffix -> pattern of type errors that are tolerated (see GenCorpus).
var toleratedGenErrs = map[string]*regexp.Regexp{}

func toleratedErr(pkgPath, msg string) bool {
	for suf, re := range toleratedGenErrs {
		if strings.HasSuffix(pkgPath, suf) && re.MatchString(msg) {
			return true
		}
	}
	return false
}

func corpusFor(prop, repoDir, verifDir string) []GenCorpus {
	ops := filepath.Join(repoDir, "integration_tests", "schemaops", "yang")
	common := []string{"-generate_fakeroot", "-fakeroot_name=device", "-generate_rename", "-generate_append", "-generate_delete", "-generate_getters",
		"-generate_leaf_getters", "-generate_simple_unions", "-generate_populate_defaults", "-typedef_enum_with_defmod", "-enum_suffix_for_simple_union_enums", "-shorten_enum_leaf_names"}
	all := []GenCorpus{
		{Pkg: "vlists", Yang: []string{filepath.Join(verifDir, "schemas", "vlists.yang")}, Path: filepath.Join(verifDir, "schemas"), Flags: common,
			Comment: "all supported key types, single and multi-key, ordered and unordered, uncompressed"},
		{Pkg: "ctestschema", Yang: []string{filepath.Join(ops, "ctestschema.yang"), filepath.Join(ops, "ctestschema-rootmod.yang")}, Path: ops,
			Flags: append(append([]string{}, common...), "-compress_paths", "-ignore_shadow_schema_paths", "-annotations"), Comment: "repository test schema, compressed paths"},
		{Pkg: "utestschema", Yang: []string{filepath.Join(ops, "utestschema.yang"), filepath.Join(ops, "refschema.yang"), filepath.Join(ops, "ctestschema.yang"), filepath.Join(ops, "ctestschema-rootmod.yang")}, Path: ops,
			Flags: append(append([]string{}, common...), "-annotations"), Comment: "repository test schemas, uncompressed"},
	}
	if prop == "C17" {
		// enumeration / identity tables: the enum-rich schema under the enum-naming flag combinations, the key-type
		// corpus, and (thorough) the repository test schemas
		enumSchema := []string{filepath.Join(verifDir, "schemas", "venums.yang"), filepath.Join(verifDir, "schemas", "venums-ext.yang"), filepath.Join(verifDir, "schemas", "venums-aug.yang")}
		base := []string{"-generate_fakeroot", "-fakeroot_name=device", "-generate_simple_unions"}
		all = []GenCorpus{
			{Pkg: "venums", Yang: enumSchema, Path: filepath.Join(verifDir, "schemas"), Flags: append(append([]string{}, base...), "-typedef_enum_with_defmod", "-enum_suffix_for_simple_union_enums", "-shorten_enum_leaf_names"),
				Comment: "enumerations (leaf, typedef, union member, explicit and negative values), identities derived across three modules; recommended naming flags"},
			all[0],
			{Pkg: "venumsplain", Yang: enumSchema, Path: filepath.Join(verifDir, "schemas"), Flags: append(append([]string{}, base...), "-compress_paths"),
				Comment: "same schema, legacy enum naming (no defining-module names, no shortening), compressed paths"},
			{Pkg: "venumsnodedup", Yang: enumSchema, Path: filepath.Join(verifDir, "schemas"), Flags: append(append([]string{}, base...), "-compress_paths", "-typedef_enum_with_defmod", "-skip_enum_deduplication"),
				Comment: "same schema, compressed paths without enum de-duplication"},
			{Pkg: "venumsdup", Yang: append(append([]string{}, enumSchema...), filepath.Join(verifDir, "schemas", "venums-dup.yang")), Path: filepath.Join(verifDir, "schemas"),
				Flags: append(append([]string{}, base...), "-typedef_enum_with_defmod", "-enum_suffix_for_simple_union_enums", "-shorten_enum_leaf_names"), TolerateErr: `redeclared|other declaration of`,
				Comment: "adds a module that derives an identity named A from venums' BASE, which already has venums:A (recorded finding)"},
			{Pkg: "vneg", Yang: []string{filepath.Join(verifDir, "schemas", "vneg.yang")}, Path: filepath.Join(verifDir, "schemas"), Flags: base,
				Comment: "an enumeration with the YANG values -1, 0, 1 (recorded finding: -1 lands on the UNSET value)"},
			all[1], all[2],
		}
		if genTier == "quick" {
			all = all[:6]
		}
	}
	if prop == "C33" {
		// defaults: the key-type corpus, the same schema with ordered-by-user lists generated as plain maps, and the
		// compressed repository schema (thorough: also the uncompressed one)
		nm := all[0]
		nm.Pkg = "vlistsnoom"
		nm.Flags = append(append([]string{}, nm.Flags...), "-generate_ordered_maps=false")
		nm.Comment = "key-type corpus with ordered-by-user lists generated as unordered maps"
		all = []GenCorpus{all[0], nm, all[1], all[2]}
		if genTier == "quick" {
			all = all[:3]
		}
	}
	if prop == "C29" {
		// path-struct API: the compressed repository schema and an OpenConfig-style key-type schema, each generated
		// together with its path structs into one package
		ct := all[1]
		ct.PathStructs = true
		vp := GenCorpus{Pkg: "vpaths", Yang: []string{filepath.Join(verifDir, "schemas", "vpaths.yang")}, Path: filepath.Join(verifDir, "schemas"), PathStructs: true,
			Flags:   append(append([]string{}, common...), "-compress_paths"),
			Comment: "OpenConfig-style schema: nested lists, a three-key list with string / enumeration / union keys, a user-ordered list; compressed, with path structs"}
		all = []GenCorpus{ct, vp}
	}
	// VERIF_GEN_ONLY=pkg[,pkg]: restrict the corpus (self-test runs and debugging)
	if only := os.Getenv("VERIF_GEN_ONLY"); only != "" {
		var out []GenCorpus
		for _, gc := range all {
			for _, o := range strings.Split(only, ",") {
				if gc.Pkg == o {
					out = append(out, gc)
				}
			}
		}
		return out
	}
	if genTier == "quick" && prop != "C17" && prop != "C29" && prop != "C33" {
		// quick: the key-type corpus and the compressed repository schema; thorough adds the uncompressed one
		// (same templates, three more ordered maps and three more keyed lists)
		return all[:2]
	}
	return all
}

// genTier is the tier of the current check run (set by cmdCheck).
var genTier = "thorough"

// genDirName is the virtual directory (inside the repository's module, never created on disk) in which the
// generated packages are presented to the Go tool chain through a file overlay.
const genDirName = "zz_verifgen"

// genOverlayFiles: virtual path of each generated source file -> the real file in the scratch directory
// (used to replay counterexamples against the generated code).
var genOverlayFiles = map[string]string{}

// generateCorpus builds the working tree's generator, runs it on the corpus into a scratch directory and
// instantiates the contract templates. The generated packages are loaded as packages of the repository's own
// module through an overlay (nothing is written into the repository). The caller removes dir when done.
func generateCorpus(repoDir, verifDir string, corpus []GenCorpus, props map[string]bool) (dir string, overlay map[string][]byte, patterns []string, instances []string, err error) {
	dir, err = os.MkdirTemp("", "verifgen-")
	if err != nil {
		return "", nil, nil, nil, err
	}
	env := append(os.Environ(), "GOFLAGS=-mod=mod", "GOPROXY=off", "GOSUMDB=off", "GOTOOLCHAIN=local")
	run := func(wd string, name string, args ...string) error {
		cmd := exec.Command(name, args...)
		cmd.Dir = wd
		cmd.Env = env
		out, e := cmd.CombinedOutput()
		if e != nil {
			return fmt.Errorf("%s %s: %v\n%s", name, strings.Join(args, " "), e, tail(string(out), 2000))
		}
		return nil
	}
	gen := filepath.Join(dir, "generator")
	if err = run(repoDir, "go", "build", "-o", gen, "./generator"); err != nil {
		return dir, nil, nil, nil, fmt.Errorf("building the working tree's generator: %v", err)
	}
	tpl, err := readTemplates(filepath.Join(repoDir, "gogen", "zz_contracts_verif.go"))
	if err != nil {
		return dir, nil, nil, nil, err
	}
	if ptpl, e := readTemplates(filepath.Join(repoDir, "ypathgen", "zz_contracts_verif.go")); e == nil {
		// templates for the generated path-struct API: its header lines join the common header
		for _, s := range ptpl {
			if s.Kind == "header" {
				tpl[0].Lines = append(tpl[0].Lines, s.Lines...)
			} else {
				tpl = append(tpl, s)
			}
		}
	}
	overlay = map[string][]byte{}
	for _, gc := range corpus {
		pd := filepath.Join(dir, gc.Pkg)
		os.MkdirAll(pd, 0o755)
		out := filepath.Join(pd, gc.Pkg+".go")
		args := append([]string{"-path=" + gc.Path, "-output_file=" + out, "-package_name=" + gc.Pkg}, gc.Flags...)
		pathOut := ""
		if gc.PathStructs {
			pathOut = filepath.Join(pd, gc.Pkg+"_path.go")
			args = append(args, "-generate_path_structs", "-path_structs_output_file="+pathOut)
		}
		args = append(args, gc.Yang...)
		if err = run(pd, gen, args...); err != nil {
			return dir, nil, nil, nil, fmt.Errorf("generator on %s: %v", gc.Pkg, err)
		}
		insts, spec, e := bindTemplates(tpl, gc, out, pathOut, props)
		if e != nil {
			return dir, nil, nil, nil, fmt.Errorf("binding contract templates to %s: %v", gc.Pkg, e)
		}
		instances = append(instances, insts...)
		os.WriteFile(filepath.Join(pd, "zz_contracts_verif.go"), []byte(spec), 0o644)
		src, _ := os.ReadFile(out)
		vdir := filepath.Join(repoDir, genDirName, gc.Pkg)
		overlay[filepath.Join(vdir, gc.Pkg+".go")] = src
		overlay[filepath.Join(vdir, "zz_contracts_verif.go")] = []byte(spec)
		genOverlayFiles[filepath.Join(vdir, gc.Pkg+".go")] = out
		if pathOut != "" {
			psrc, _ := os.ReadFile(pathOut)
			overlay[filepath.Join(vdir, gc.Pkg+"_path.go")] = psrc
			genOverlayFiles[filepath.Join(vdir, gc.Pkg+"_path.go")] = pathOut
		}
		patterns = append(patterns, "./"+genDirName+"/"+gc.Pkg)
		if gc.TolerateErr != "" {
			toleratedGenErrs["/"+genDirName+"/"+gc.Pkg] = regexp.MustCompile(gc.TolerateErr)
		}
	}
	os.Remove(gen)
	return dir, overlay, patterns, instances, nil
}

func tail(s string, n int) string {
	if len(s) > n {
		return s[len(s)-n:]
	}
	return s
}

// ---------- templates ----------

type tplSection struct {
	Kind  string // orderedmap | keyedlist | header
	Lines []string
}

// readTemplates splits the template contract file into sections introduced by `//@ template <kind>`.
// Lines before the first section (imports, shared spec functions) form the header, emitted once per package.
func readTemplates(path string) ([]tplSection, error) {
	b, err := os.ReadFile(path)
	if err != nil {
		return nil, fmt.Errorf("contract templates for generated code: %v", err)
	}
	var out []tplSection
	cur := &tplSection{Kind: "header"}
	for _, l := range strings.Split(string(b), "\n") {
		t := strings.TrimSpace(l)
		if strings.HasPrefix(t, "//go:build") || strings.HasPrefix(t, "package ") {
			continue
		}
		if m := regexp.MustCompile(`^//@\s*template\s+(\S+)`).FindStringSubmatch(t); m != nil {
			out = append(out, *cur)
			cur = &tplSection{Kind: m[1]}
			continue
		}
		cur.Lines = append(cur.Lines, l)
	}
	out = append(out, *cur)
	return out, nil
}

type keyLeaf struct {
	Yang   string // YANG leaf name
	Field  string // Go field name in the element struct (and in the key struct for multi-key lists)
	Scalar bool   // pointer-typed field (nil = unset); otherwise enumeration (0 = unset) or union interface (nil = unset)
	Type   string // Go type of the key value
	Iface  bool   // union (interface-typed) key
	Float  bool
}

type listInst struct {
	Ordered  bool
	OM       string // ordered map type
	Parent   string // parent struct type
	Field    string // parent field name == list name in helper method names
	K        string // key type
	V        string // element struct type
	Keys     []keyLeaf
	Multi    bool
	YangPath string
}

var placeholderX = regexp.MustCompile(`\bX\b`)

var docPathRe = regexp.MustCompile(`represents the (\S+) YANG schema element`)

func bindTemplates(tpl []tplSection, gc GenCorpus, goFile, pathFile string, props map[string]bool) ([]string, string, error) {
	fset := token.NewFileSet()
	f, err := parser.ParseFile(fset, goFile, nil, parser.ParseComments)
	if err != nil {
		return nil, "", err
	}
	structs := map[string]*ast.StructType{}
	docs := map[string]string{}
	for _, d := range f.Decls {
		gd, ok := d.(*ast.GenDecl)
		if !ok || gd.Tok != token.TYPE {
			continue
		}
		for _, s := range gd.Specs {
			ts := s.(*ast.TypeSpec)
			if st, ok := ts.Type.(*ast.StructType); ok {
				structs[ts.Name.Name] = st
				doc := ""
				if gd.Doc != nil {
					doc = gd.Doc.Text()
				}
				if ts.Doc != nil {
					doc = ts.Doc.Text()
				}
				docs[ts.Name.Name] = strings.Join(strings.Fields(doc), " ")
			}
		}
	}
	// YANG entries
	ms := yang.NewModules()
	ms.AddPath(gc.Path)
	var roots []*yang.Entry
	for _, y := range gc.Yang {
		if err := ms.Read(y); err != nil {
			return nil, "", fmt.Errorf("goyang read %s: %v", y, err)
		}
	}
	if errs := ms.Process(); len(errs) > 0 {
		return nil, "", fmt.Errorf("goyang: %v", errs[0])
	}
	for _, m := range ms.Modules {
		roots = append(roots, yang.ToEntry(m))
	}
	lookup := func(path string) *yang.Entry {
		segs := strings.Split(strings.Trim(path, "/"), "/")
		for _, r := range roots {
			if r.Name != segs[0] {
				continue
			}
			if e := walkEntry(r, segs[1:]); e != nil {
				return e
			}
		}
		return nil
	}
	exprStr := func(e ast.Expr) string {
		var b strings.Builder
		writeExpr(&b, e)
		return b.String()
	}
	keysOf := func(V, K string) ([]keyLeaf, string, error) {
		m := docPathRe.FindStringSubmatch(docs[V])
		if m == nil {
			return nil, "", fmt.Errorf("%s: no schema path in the doc comment", V)
		}
		e := lookup(m[1])
		if e == nil || e.Key == "" {
			return nil, m[1], fmt.Errorf("%s: YANG list %s not found or without key", V, m[1])
		}
		st := structs[V]
		var out []keyLeaf
		for _, kn := range strings.Fields(e.Key) {
			var found *ast.Field
			for _, fl := range st.Fields.List {
				if fl.Tag == nil || len(fl.Names) != 1 {
					continue
				}
				tm := regexp.MustCompile(`path:"([^"]*)"`).FindStringSubmatch(fl.Tag.Value)
				if tm == nil {
					continue
				}
				for _, alt := range strings.Split(tm[1], "|") {
					if alt == kn {
						found = fl
					}
				}
			}
			if found == nil {
				return nil, m[1], fmt.Errorf("%s: no field with path tag %q for key leaf", V, kn)
			}
			kl := keyLeaf{Yang: kn, Field: found.Names[0].Name}
			if se, ok := found.Type.(*ast.StarExpr); ok {
				kl.Scalar = true
				kl.Type = exprStr(se.X)
			} else {
				kl.Type = exprStr(found.Type)
				if strings.HasSuffix(kl.Type, "_Union") {
					kl.Iface = true
				}
			}
			if kl.Type == "float64" {
				kl.Float = true
			}
			out = append(out, kl)
		}
		return out, m[1], nil
	}
	var insts []*listInst
	oms := map[string]*listInst{}
	var names []string
	for n := range structs {
		names = append(names, n)
	}
	sort.Strings(names)
	// ordered map types
	for _, n := range names {
		st := structs[n]
		var kT, vT string
		for _, fl := range st.Fields.List {
			if len(fl.Names) != 1 {
				continue
			}
			switch fl.Names[0].Name {
			case "keys":
				if at, ok := fl.Type.(*ast.ArrayType); ok && at.Len == nil {
					kT = exprStr(at.Elt)
				}
			case "valueMap":
				if mt, ok := fl.Type.(*ast.MapType); ok {
					if se, ok := mt.Value.(*ast.StarExpr); ok {
						vT = exprStr(se.X)
					}
				}
			}
		}
		if kT != "" && vT != "" {
			oms[n] = &listInst{Ordered: true, OM: n, K: kT, V: vT}
		}
	}
	for _, n := range names {
		st := structs[n]
		for _, fl := range st.Fields.List {
			if len(fl.Names) != 1 {
				continue
			}
			fn := fl.Names[0].Name
			if se, ok := fl.Type.(*ast.StarExpr); ok {
				if om := oms[exprStr(se.X)]; om != nil {
					om.Parent, om.Field = n, fn
					insts = append(insts, om)
				}
			}
			if mt, ok := fl.Type.(*ast.MapType); ok {
				if se, ok := mt.Value.(*ast.StarExpr); ok && structs[exprStr(se.X)] != nil && fn != "valueMap" {
					insts = append(insts, &listInst{Parent: n, Field: fn, K: exprStr(mt.Key), V: exprStr(se.X)})
				}
			}
		}
	}
	var out strings.Builder
	fmt.Fprintf(&out, "//go:build verif\n\n// Instantiated from /repo/gogen/zz_contracts_verif.go by /verif/engine/gen.go for corpus %q (%s).\npackage %s\n\n", gc.Pkg, gc.Comment, gc.Pkg)
	for _, s := range tpl {
		if s.Kind == "header" {
			out.WriteString(strings.Join(s.Lines, "\n") + "\n")
		}
	}
	var report []string
	for _, in := range insts {
		ks, yp, err := keysOf(in.V, in.K)
		if err != nil {
			return nil, "", err
		}
		in.Keys, in.YangPath = ks, yp
		in.Multi = len(ks) > 1
		skip := ""
		for _, k := range ks {
			if k.Float {
				skip = "decimal64 (float64) key: Go map semantics for NaN and signed zero are not modelled"
			}
		}
		kind := "keyedlist"
		if in.Ordered {
			kind = "orderedmap"
		}
		label := fmt.Sprintf("%s.%s.%s (%s, key %s)", gc.Pkg, in.Parent, in.Field, kind, in.K)
		if skip != "" {
			report = append(report, "SKIPPED "+label+": "+skip)
			continue
		}
		n := 0
		for _, s := range tpl {
			if s.Kind != kind {
				continue
			}
			for _, l := range s.Lines {
				out.WriteString(in.subst(l) + "\n")
			}
			n++
		}
		if n > 0 {
			report = append(report, label)
		}
	}
	// enumeration / identity types: every named type with a ΛMap method
	var enums []string
	for _, d := range f.Decls {
		fd, ok := d.(*ast.FuncDecl)
		if !ok || fd.Name.Name != "ΛMap" || fd.Recv == nil || len(fd.Recv.List) != 1 {
			continue
		}
		if id, ok := fd.Recv.List[0].Type.(*ast.Ident); ok {
			enums = append(enums, id.Name)
		}
	}
	sort.Strings(enums)
	// which YANG type a generated enumeration type stands for: the generated ΛEnumTypes table maps leaf paths to
	// the enumeration types used there; a path that lists exactly one type, whose leaf has exactly one
	// enumeration / identityref (member) type, identifies the YANG type, and goyang gives its value names
	enumNames := map[string]string{}
	if src, err := os.ReadFile(goFile); err == nil {
		txt := string(src)
		if i := strings.Index(txt, "ΛEnumTypes = map[string][]reflect.Type{"); i >= 0 {
			blockRe := regexp.MustCompile(`"(/[^"]*)": \[\]reflect\.Type\{([^}]*)\}`)
			typeRe := regexp.MustCompile(`reflect\.TypeOf\(\((E_[A-Za-z0-9_]+)\)\(0\)\)`)
			for _, bm := range blockRe.FindAllStringSubmatch(txt[i:], -1) {
				ts := typeRe.FindAllStringSubmatch(bm[2], -1)
				if len(ts) != 1 {
					continue
				}
				E := ts[0][1]
				if _, done := enumNames[E]; done {
					continue
				}
				var le *yang.Entry
				for _, r := range roots {
					if e := walkEntry(r, strings.Split(strings.Trim(bm[1], "/"), "/")); e != nil {
						le = e
						break
					}
				}
				if le == nil || le.Type == nil {
					continue
				}
				var members []*yang.YangType
				var collect func(t *yang.YangType)
				collect = func(t *yang.YangType) {
					switch t.Kind {
					case yang.Yenum, yang.Yidentityref:
						members = append(members, t)
					case yang.Yunion:
						for _, m := range t.Type {
							collect(m)
						}
					}
				}
				collect(le.Type)
				if len(members) != 1 {
					continue
				}
				var names, mods []string
				if members[0].Kind == yang.Yenum {
					names = members[0].Enum.Names()
				} else if members[0].IdentityBase != nil {
					for _, v := range members[0].IdentityBase.Values {
						names = append(names, v.Name)
						mn := ""
						if m := yang.RootNode(v); m != nil {
							mn = m.Name
							if m.BelongsTo != nil {
								mn = m.BelongsTo.Name
							}
						}
						mods = append(mods, mn)
					}
				}
				if len(names) == 0 {
					continue
				}
				var only, each []string
				for k, nm := range names {
					only = append(only, fmt.Sprintf("X[v].Name == %q", nm))
					if mods != nil {
						each = append(each, fmt.Sprintf("(exists v int64 :: in(v, X) && X[v].Name == %q && X[v].DefiningModule == %q)", nm, mods[k]))
					} else {
						each = append(each, fmt.Sprintf("(exists v int64 :: in(v, X) && X[v].Name == %q)", nm))
					}
				}
				enumNames[E] = "(forall v int64 :: in(v, X) ==> (" + strings.Join(only, " || ") + ")) && " + strings.Join(each, " && ")
			}
		}
	}
	for _, en := range enums {
		n := 0
		body, known := enumNames[en]
		if !known {
			body = "true"
		}
		for _, s := range tpl {
			if s.Kind != "enumtype" {
				continue
			}
			for _, l := range s.Lines {
				l = expandX(l, "$ENUMNAMESARE", body)
				out.WriteString(strings.ReplaceAll(l, "$E", en) + "\n")
			}
			n++
		}
		if n > 0 {
			lab := fmt.Sprintf("%s.%s (enumtype)", gc.Pkg, en)
			if !known {
				lab += " value names not compared with the schema (no leaf that identifies the YANG type)"
			}
			report = append(report, lab)
		}
	}
	// PopulateDefaults: one instance per struct with that method. The defaulted leaves and their values come from
	// the YANG schema (goyang), not from the generator; supported default kinds: string, integer, boolean and
	// enumeration / identityref (checked through the generated value table); other leaves only get "kept".
	var defStructs []string
	for _, d := range f.Decls {
		fd, ok := d.(*ast.FuncDecl)
		if !ok || fd.Name.Name != "PopulateDefaults" || fd.Recv == nil || len(fd.Recv.List) != 1 {
			continue
		}
		if se, ok := fd.Recv.List[0].Type.(*ast.StarExpr); ok {
			if id, ok := se.X.(*ast.Ident); ok && structs[id.Name] != nil {
				defStructs = append(defStructs, id.Name)
			}
		}
	}
	sort.Strings(defStructs)
	pathTagRe := regexp.MustCompile(`path:"([^"]*)"`)
	for _, S := range defStructs {
		var ent *yang.Entry
		if m := docPathRe.FindStringSubmatch(docs[S]); m != nil {
			ent = lookup(m[1])
		}
		var set, kept, covered, uncovered []string
		for _, fl := range structs[S].Fields.List {
			if len(fl.Names) != 1 || fl.Tag == nil || strings.HasPrefix(fl.Names[0].Name, "Λ") {
				continue
			}
			L := fl.Names[0].Name
			tm := pathTagRe.FindStringSubmatch(fl.Tag.Value)
			if tm == nil {
				continue
			}
			var le *yang.Entry
			if ent != nil {
				le = walkEntry(ent, strings.Split(strings.Split(tm[1], "|")[0], "/"))
			}
			def, hasDef := "", false
			if le != nil && (le.IsLeaf() || le.IsLeafList()) {
				if dv := le.DefaultValues(); len(dv) == 1 && le.IsLeaf() {
					def, hasDef = dv[0], true
				} else if len(dv) > 0 {
					uncovered = append(uncovered, L+" (leaf-list default)")
				}
			}
			ts := exprStr(fl.Type)
			switch {
			case strings.HasPrefix(ts, "*") && isBasicGoType(ts[1:]):
				bt := ts[1:]
				if bt == "float64" {
					// (the value is compared for the other types; for float64 `==` would fail on an untouched NaN)
					kept = append(kept, fmt.Sprintf("(old(X.%s) != nil ==> X.%s == old(X.%s))", L, L, L))
				} else {
					kept = append(kept, fmt.Sprintf("(old(X.%s) != nil ==> X.%s == old(X.%s) && *X.%s == old(*X.%s))", L, L, L, L, L))
				}
				if !hasDef {
					kept = append(kept, fmt.Sprintf("(old(X.%s) == nil ==> X.%s == nil)", L, L))
					continue
				}
				lit, ok := goLiteralForDefault(bt, def)
				if !ok {
					uncovered = append(uncovered, L+" (default "+def+" of type "+bt+")")
					continue
				}
				set = append(set, fmt.Sprintf("(old(X.%s) == nil ==> X.%s != nil && *X.%s == %s)", L, L, L, lit))
				covered = append(covered, L+"="+def)
			case strings.HasPrefix(ts, "E_"):
				kept = append(kept, fmt.Sprintf("(old(X.%s) != 0 ==> X.%s == old(X.%s))", L, L, L))
				if !hasDef {
					kept = append(kept, fmt.Sprintf("(old(X.%s) == 0 ==> X.%s == 0)", L, L))
					continue
				}
				name := def
				if i := strings.LastIndex(name, ":"); i >= 0 {
					name = name[i+1:]
				}
				set = append(set, fmt.Sprintf("(old(X.%s) == 0 ==> in(int64(X.%s), ΛEnum[%q]) && ΛEnum[%q][int64(X.%s)].Name == %q)", L, L, ts, ts, L, name))
				covered = append(covered, L+"="+def)
			case strings.HasPrefix(ts, "*") || strings.HasPrefix(ts, "map[") || strings.HasSuffix(ts, "_OrderedMap"):
				// containers and lists: not leaves
			default:
				if hasDef {
					uncovered = append(uncovered, L+" (default of type "+ts+")")
				}
			}
		}
		if len(set) == 0 {
			set = []string{"true"}
		}
		if len(kept) == 0 {
			kept = []string{"true"}
		}
		// children: containers (*T) and map-based lists (map[K]*T) whose element type has PopulateDefaults; the
		// ghost set popDone_T records the objects of type T for which PopulateDefaults has returned
		hasPD := map[string]bool{}
		for _, x := range defStructs {
			hasPD[x] = true
		}
		type childT struct{ field, typ, key, kind string }
		childrenOf := func(S string) []childT {
			var cs []childT
			for _, fl := range structs[S].Fields.List {
				if len(fl.Names) != 1 {
					continue
				}
				switch t := fl.Type.(type) {
				case *ast.StarExpr:
					if id, ok := t.X.(*ast.Ident); ok {
						if hasPD[id.Name] {
							cs = append(cs, childT{fl.Names[0].Name, id.Name, "", "container"})
						} else if strings.HasSuffix(id.Name, "_OrderedMap") {
							for _, in := range insts {
								if in.Parent == S && in.Field == fl.Names[0].Name && hasPD[in.V] {
									cs = append(cs, childT{fl.Names[0].Name, in.V, "", "ordered"})
								}
							}
						}
					}
				case *ast.MapType:
					if se, ok := t.Value.(*ast.StarExpr); ok {
						if id, ok := se.X.(*ast.Ident); ok && hasPD[id.Name] {
							cs = append(cs, childT{fl.Names[0].Name, id.Name, exprStr(t.Key), "map"})
						}
					}
				}
			}
			return cs
		}
		below := map[string]bool{S: true}
		var order []string
		var walkBelow func(x string)
		walkBelow = func(x string) {
			for _, c := range childrenOf(x) {
				if !below[c.typ] {
					below[c.typ] = true
					walkBelow(c.typ)
				}
			}
		}
		walkBelow(S)
		for x := range below {
			order = append(order, x)
		}
		sort.Strings(order)
		var ghosts, keeps []string
		for _, x := range order {
			ghosts = append(ghosts, "popDone_"+x)
			keeps = append(keeps, fmt.Sprintf("(forall x *%s :: old(in(x, popDone_%s)) ==> in(x, popDone_%s))", x, x, x))
		}
		doneOf := func(c childT, recv string) string {
			switch c.kind {
			case "container":
				return fmt.Sprintf("(%s.%s != nil ==> in(%s.%s, popDone_%s))", recv, c.field, recv, c.field, c.typ)
			case "map":
				return fmt.Sprintf("(forall k %s :: in(k, %s.%s) ==> in(%s.%s[k], popDone_%s))", c.key, recv, c.field, recv, c.field, c.typ)
			}
			return ""
		}
		var childDone []string
		for _, c := range childrenOf(S) {
			if d := doneOf(c, "X"); d != "" {
				childDone = append(childDone, d)
			}
		}
		if len(childDone) == 0 {
			childDone = []string{"true"}
		}
		// loop invariants: the loops of the generated method, in source order, each over one list field
		var loopInvs []string
		for _, d := range f.Decls {
			fd, ok := d.(*ast.FuncDecl)
			if !ok || fd.Name.Name != "PopulateDefaults" || fd.Recv == nil || fd.Body == nil {
				continue
			}
			if se, ok := fd.Recv.List[0].Type.(*ast.StarExpr); !ok || exprStr(se.X) != S {
				continue
			}
			li := 0
			var earlier []string
			for _, c := range childrenOf(S) {
				if c.kind == "container" {
					earlier = append(earlier, doneOf(c, "t"))
				}
			}
			ast.Inspect(fd.Body, func(n ast.Node) bool {
				rs, ok := n.(*ast.RangeStmt)
				if !ok {
					return true
				}
				fieldName := ""
				switch x := rs.X.(type) {
				case *ast.SelectorExpr:
					fieldName = x.Sel.Name
				case *ast.CallExpr:
					if se, ok := x.Fun.(*ast.SelectorExpr); ok {
						if s2, ok := se.X.(*ast.SelectorExpr); ok {
							fieldName = s2.Sel.Name
						}
					}
				}
				var cur childT
				for _, c := range childrenOf(S) {
					if c.field == fieldName {
						cur = c
					}
				}
				inv := append([]string{"t != nil"}, keeps...) // (the history sets only grow, also across iterations)
				inv = append(inv, earlier...)
				if cur.kind == "map" {
					inv = append(inv, fmt.Sprintf("(forall k %s :: in(k, visited) ==> in(t.%s[k], popDone_%s))", cur.key, cur.field, cur.typ))
					earlier = append(earlier, doneOf(cur, "t"))
				}
				loopInvs = append(loopInvs, fmt.Sprintf("//@ loop %d invariant %s", li, strings.Join(inv, " && ")))
				li++
				return true
			})
		}
		n := 0
		for _, s := range tpl {
			if s.Kind != "defaults" {
				continue
			}
			for _, l := range s.Lines {
				if strings.TrimSpace(l) == "//@ $LOOPINVS" {
					for _, li := range loopInvs {
						out.WriteString(li + "\n")
					}
					continue
				}
				l = expandX(l, "$DEFAULTSSET", strings.Join(set, " && "))
				l = expandX(l, "$LEAVESKEPT", strings.Join(kept, " && "))
				l = expandX(l, "$CHILDRENDONE", strings.Join(childDone, " && "))
				l = strings.ReplaceAll(l, "$KEEPSBELOW", strings.Join(keeps, " && "))
				l = strings.ReplaceAll(l, "$GHOSTS", strings.Join(ghosts, ", "))
				out.WriteString(strings.ReplaceAll(l, "$S", S) + "\n")
			}
			n++
		}
		if n > 0 {
			lab := fmt.Sprintf("%s.(*%s).PopulateDefaults (defaults: %s)", gc.Pkg, S, strings.Join(covered, ", "))
			if len(uncovered) > 0 {
				lab += " NOT COVERED: " + strings.Join(uncovered, ", ")
			}
			report = append(report, lab)
		}
	}
	// path-struct accessors (ypathgen): one instance per child accessor method of a path struct whose GoStruct and
	// field are found; the expected relative path is the first alternative of that field's `path` tag, the expected
	// keys are the list's key leaves (a key without a parameter of its Go name is a wildcard)
	if pathFile != "" {
		pf, err := parser.ParseFile(fset, pathFile, nil, 0)
		if err != nil {
			return nil, "", err
		}
		tagRe := regexp.MustCompile(`path:"([^"]*)"`)
		for _, d := range pf.Decls {
			fd, ok := d.(*ast.FuncDecl)
			if !ok || fd.Recv == nil || len(fd.Recv.List) != 1 || fd.Type.Results == nil || len(fd.Type.Results.List) != 1 {
				continue
			}
			se, ok := fd.Recv.List[0].Type.(*ast.StarExpr)
			if !ok {
				continue
			}
			rid, ok := se.X.(*ast.Ident)
			if !ok || !(strings.HasSuffix(rid.Name, "Path") || strings.HasSuffix(rid.Name, "PathAny")) {
				continue
			}
			S := strings.TrimSuffix(strings.TrimSuffix(rid.Name, "Any"), "Path")
			st := structs[S]
			if st == nil {
				continue
			}
			field := func(name string) *ast.Field {
				for _, fl := range st.Fields.List {
					if len(fl.Names) == 1 && fl.Names[0].Name == name && fl.Tag != nil {
						return fl
					}
				}
				return nil
			}
			M := fd.Name.Name
			F, fl := M, field(M)
			if fl == nil {
				if i := strings.Index(M, "Any"); i > 0 {
					F, fl = M[:i], field(M[:i])
				}
			}
			if fl == nil {
				continue
			}
			tm := tagRe.FindStringSubmatch(fl.Tag.Value)
			if tm == nil {
				continue
			}
			names := strings.Split(strings.Split(tm[1], "|")[0], "/")
			rel := []string{fmt.Sprintf("len(X) == %d", len(names))}
			for i, nm := range names {
				rel = append(rel, fmt.Sprintf("X[%d] == %q", i, nm))
			}
			params := map[string]bool{}
			for _, p := range fd.Type.Params.List {
				for _, nm := range p.Names {
					params[nm.Name] = true
				}
			}
			keys := "forall s string :: !in(s, X)"
			for _, in := range insts {
				if in.Parent != S || in.Field != F {
					continue
				}
				ks, _, err := keysOf(in.V, in.K)
				if err != nil {
					return nil, "", err
				}
				var dom, vals []string
				for _, k := range ks {
					dom = append(dom, fmt.Sprintf("s == %q", k.Yang))
					if params[k.Field] {
						vals = append(vals, fmt.Sprintf("X[%q] == boxof(%s)", k.Yang, k.Field))
					} else {
						vals = append(vals, fmt.Sprintf("X[%q] == boxof(\"*\")", k.Yang))
					}
				}
				keys = "(forall s string :: in(s, X) == (" + strings.Join(dom, " || ") + ")) && " + strings.Join(vals, " && ")
			}
			macro := expandX
			n := 0
			for _, s := range tpl {
				if s.Kind != "pathaccessor" {
					continue
				}
				for _, l := range s.Lines {
					l = macro(l, "$RELPATHIS", strings.Join(rel, " && "))
					l = macro(l, "$KEYSARE", keys)
					l = strings.ReplaceAll(strings.ReplaceAll(l, "$R", rid.Name), "$M", M)
					out.WriteString(l + "\n")
				}
				n++
			}
			if n > 0 {
				report = append(report, fmt.Sprintf("%s.(*%s).%s (pathaccessor, %s)", gc.Pkg, rid.Name, M, strings.Join(names, "/")))
			}
		}
	}
	return report, out.String(), nil
}

func walkEntry(e *yang.Entry, segs []string) *yang.Entry {
	if len(segs) == 0 {
		return e
	}
	if c := e.Dir[segs[0]]; c != nil {
		if r := walkEntry(c, segs[1:]); r != nil {
			return r
		}
	}
	// choice / case nodes do not appear in data paths
	for _, c := range e.Dir {
		if c.Kind == yang.ChoiceEntry || c.Kind == yang.CaseEntry {
			if r := walkEntry(c, segs); r != nil {
				return r
			}
		}
	}
	return nil
}

var macroNames = []string{"KEYOF", "KEYUNSET", "KEYNIL", "KEYLEAVES", "NONSCALARUNSET", "KEYLEAFLOCS", "KEYNAMEIS", "KEYMAPVALS", "KEYCOMPARABLE"}

// expandMacros replaces every `$NAME(args)` (balanced parentheses, arguments split at top-level commas),
// innermost first.
func expandMacros(l string, fn func(name string, args []string) string) string {
	for guard := 0; guard < 200; guard++ {
		best, bestName := -1, ""
		for _, n := range macroNames {
			if i := strings.LastIndex(l, "$"+n+"("); i > best {
				best, bestName = i, n
			}
		}
		if best < 0 {
			return l
		}
		open := best + len(bestName) + 1
		end := matchParen(l, open)
		if end < 0 {
			return l
		}
		var args []string
		for _, a := range splitTop(l[open+1:end], ',') {
			args = append(args, strings.TrimSpace(a))
		}
		l = l[:best] + fn(bestName, args) + l[end+1:]
	}
	return l
}

// subst instantiates one template line for a list instance.
//
//	$OM $K $V $P $F            type and field names
//	$KEYARGS                    the key value built from the helper's key parameters (named after the key fields)
//	$KEYOF(v)                   the key value read from the key leaves of element v
//	$KEYNIL(v)                  some pointer-typed key leaf of v is nil
//	$NONSCALARUNSET(v)          some enumeration / union key leaf of v is unset (0 / nil)
//	$KEYLEAVES(e, k)            every key leaf of e is set and equals the corresponding component of k
//	$KEYLEAFLOCS(e)             the key leaf fields of e as a list of locations (for modifies)
//	$KEYNAMEIS(s)               s is one of the YANG key leaf names
//	$KEYMAPVALS(e, m)           m binds every YANG key leaf name to the (boxed) value of e's key leaf
func (in *listInst) subst(l string) string {
	l = expandMacros(l, func(name string, args []string) string {
		switch name {
		case "KEYCOMPARABLE":
			// $KEYCOMPARABLE(k): the union (interface-typed) components of key value k hold a comparable dynamic type
			var cs []string
			for _, kl := range in.Keys {
				if kl.Iface {
					if in.Multi {
						cs = append(cs, "comparable("+args[0]+"."+kl.Field+")")
					} else {
						cs = append(cs, "comparable("+args[0]+")")
					}
				}
			}
			if len(cs) == 0 {
				return "true"
			}
			return "(" + strings.Join(cs, " && ") + ")"
		case "KEYOF":
			v := args[0]
			if !in.Multi {
				k := in.Keys[0]
				if k.Scalar {
					return "(*" + v + "." + k.Field + ")"
				}
				return v + "." + k.Field
			}
			var fs []string
			for _, k := range in.Keys {
				if k.Scalar {
					fs = append(fs, k.Field+": *"+v+"."+k.Field)
				} else {
					fs = append(fs, k.Field+": "+v+"."+k.Field)
				}
			}
			return in.K + "{" + strings.Join(fs, ", ") + "}"
		case "KEYNIL":
			var cs []string
			for _, k := range in.Keys {
				if k.Scalar {
					cs = append(cs, args[0]+"."+k.Field+" == nil")
				}
			}
			if len(cs) == 0 {
				return "false"
			}
			return "(" + strings.Join(cs, " || ") + ")"
		case "NONSCALARUNSET", "KEYUNSET":
			var cs []string
			for _, k := range in.Keys {
				switch {
				case k.Scalar:
					if name == "KEYUNSET" {
						cs = append(cs, args[0]+"."+k.Field+" == nil")
					}
				case k.Iface:
					cs = append(cs, args[0]+"."+k.Field+" == nil")
				default:
					cs = append(cs, args[0]+"."+k.Field+" == 0")
				}
			}
			if len(cs) == 0 {
				return "false"
			}
			return "(" + strings.Join(cs, " || ") + ")"
		case "KEYLEAVES":
			e, k := args[0], args[1]
			var cs []string
			for _, kl := range in.Keys {
				comp := k
				if in.Multi {
					comp = k + "." + kl.Field
				}
				if kl.Scalar {
					cs = append(cs, e+"."+kl.Field+" != nil && *"+e+"."+kl.Field+" == "+comp)
				} else {
					cs = append(cs, e+"."+kl.Field+" == "+comp)
				}
			}
			return "(" + strings.Join(cs, " && ") + ")"
		case "KEYLEAFLOCS":
			var cs []string
			for _, kl := range in.Keys {
				cs = append(cs, args[0]+"."+kl.Field)
			}
			return strings.Join(cs, ", ")
		case "KEYNAMEIS":
			var cs []string
			for _, kl := range in.Keys {
				cs = append(cs, args[0]+" == "+fmt.Sprintf("%q", kl.Yang))
			}
			return "(" + strings.Join(cs, " || ") + ")"
		case "KEYMAPVALS":
			var cs []string
			for _, kl := range in.Keys {
				v := args[0] + "." + kl.Field
				if kl.Scalar {
					v = "*" + v
				}
				cs = append(cs, fmt.Sprintf("%s[%q] == boxof(%s)", args[1], kl.Yang, v))
			}
			return "(" + strings.Join(cs, " && ") + ")"
		}
		return "$?" + name
	})
	keyArgs := in.Keys[0].Field
	if in.Multi {
		var fs []string
		for _, k := range in.Keys {
			fs = append(fs, k.Field+": "+k.Field)
		}
		keyArgs = in.K + "{" + strings.Join(fs, ", ") + "}"
	}
	r := strings.NewReplacer("$KEYARGS", keyArgs, "$OM", in.OM, "$K", in.K, "$V", in.V, "$P", in.Parent, "$F", in.Field)
	return r.Replace(l)
}

// expandX replaces every `name(arg)` in l by body with the placeholder X replaced by arg.
func expandX(l, name, body string) string {
	for {
		i := strings.Index(l, name+"(")
		if i < 0 {
			return l
		}
		e := matchParen(l, i+len(name))
		if e < 0 {
			return l
		}
		arg := l[i+len(name)+1 : e]
		l = l[:i] + "(" + substOutsideStrings(body, arg) + ")" + l[e+1:]
	}
}

// substOutsideStrings replaces the placeholder X (as a whole word) by arg everywhere except inside Go string
// literals (a YANG name such as "X-ONE" must stay as it is).
func substOutsideStrings(body, arg string) string {
	var b strings.Builder
	for i := 0; i < len(body); {
		if body[i] == '"' {
			j := i + 1
			for j < len(body) && body[j] != '"' {
				if body[j] == '\\' {
					j++
				}
				j++
			}
			if j >= len(body) {
				j = len(body) - 1
			}
			b.WriteString(body[i : j+1])
			i = j + 1
			continue
		}
		j := i
		for j < len(body) && body[j] != '"' {
			j++
		}
		b.WriteString(placeholderX.ReplaceAllLiteralString(body[i:j], arg))
		i = j
	}
	return b.String()
}

func isBasicGoType(t string) bool {
	switch t {
	case "string", "bool", "int8", "int16", "int32", "int64", "uint8", "uint16", "uint32", "uint64", "float64":
		return true
	}
	return false
}

// goLiteralForDefault: the Go literal denoting a YANG default value of a string / boolean / integer leaf.
func goLiteralForDefault(goType, def string) (string, bool) {
	switch goType {
	case "string":
		return strconv.Quote(def), true
	case "bool":
		if def == "true" || def == "false" {
			return def, true
		}
		return "", false
	case "float64":
		return "", false
	}
	if _, err := strconv.ParseInt(def, 10, 64); err == nil {
		return def, true
	}
	if _, err := strconv.ParseUint(def, 10, 64); err == nil {
		return def, true
	}
	return "", false
}
