package main

import (
	"go/types"
)

// subtreeBases: the field arrays (base name -> sort) of every named struct type reachable from t through pointers,
// slices, maps and struct fields, restricted to the package of the starting type (generated GoStructs reference
// each other within one package; library types they embed are not followed). Used by `modifies subtree(x)`, a
// type-level frame: any field of any object of these types may change.
func (c *FnCtx) subtreeBases(t types.Type) map[string]string {
	out := map[string]string{}
	seen := map[*types.Named]bool{}
	var home *types.Package
	var visit func(t types.Type)
	visit = func(t types.Type) {
		switch u := types.Unalias(t).(type) {
		case *types.Pointer:
			visit(u.Elem())
		case *types.Slice:
			visit(u.Elem())
		case *types.Array:
			visit(u.Elem())
		case *types.Map:
			visit(u.Key())
			visit(u.Elem())
		case *types.Named:
			st, ok := u.Underlying().(*types.Struct)
			if !ok || seen[u] {
				return
			}
			if home == nil {
				home = u.Obj().Pkg()
			}
			if u.Obj().Pkg() != home {
				return
			}
			seen[u] = true
			for i := 0; i < st.NumFields(); i++ {
				b, s := c.fieldArr(u, st.Field(i).Name())
				out[b] = s
				visit(st.Field(i).Type())
			}
		}
	}
	visit(t)
	return out
}

