package main

import (
	"fmt"
	"math/big"
	"strings"
	"unicode/utf8"
)

// runeRowString: when the function converts the string to []rune, the model's rune slice determines the
// string (its runes), which lets counterexamples with multi-byte characters be replayed.
func (x *extractor) runeRowString(term string) (string, bool) {
	for _, rr := range x.c.runeRows {
		if rr[0] != term {
			continue
		}
		n, ok := x.intOf(rr[2])
		if !ok || n.Sign() < 0 || n.Cmp(big.NewInt(32)) > 0 {
			return "", false
		}
		var b strings.Builder
		for i := int64(0); i < n.Int64(); i++ {
			r, ok := x.intOf(fmt.Sprintf("(select %s %d)", rr[1], i))
			if !ok || !r.IsInt64() || r.Int64() < 0 || r.Int64() > 0x10ffff || !utf8.ValidRune(rune(r.Int64())) {
				return "", false
			}
			b.WriteRune(rune(r.Int64()))
		}
		return b.String(), true
	}
	return "", false
}
