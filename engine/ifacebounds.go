package main

import (
	"go/types"
	"strings"
)

// registerCommonDynTypes gives type ids to the dynamic types a decoded JSON value can have, so that
// counterexample models can pick them for interface-typed inputs.
func registerCommonDynTypes(tt *TypeTable) {
	any := types.NewInterfaceType(nil, nil)
	any.Complete()
	for _, t := range []types.Type{
		types.Typ[types.String], types.Typ[types.Float64], types.Typ[types.Bool], types.Typ[types.Int64], types.Typ[types.Uint64],
		types.NewSlice(any), types.NewMap(types.Typ[types.String], any),
	} {
		tt.tid(t)
	}
}

// ifaceBounds restricts (for counterexample search only) the dynamic types of interface values in the entry
// state to known Go types, so that a model can be turned into a Go test.
func ifaceBounds(c *FnCtx) []string {
	var ids []string
	for _, k := range c.tt.tidOrder {
		if c.tt.tidTypes[k] == nil {
			continue
		}
		if isIface(c.tt.tidTypes[k]) {
			continue
		}
		ids = append(ids, c.tt.tids2(k))
	}
	if len(ids) == 0 {
		return nil
	}
	known := func(t string) string {
		var alts []string
		for _, id := range ids {
			alts = append(alts, eq("(ityp "+t+")", id))
		}
		return or(eq(t, "inil"), and("((_ is ibox) "+t+")", or(alts...)))
	}
	var out []string
	for _, it := range c.inputTerms {
		if isIface(it.typ) {
			out = append(out, known(it.term))
		}
	}
	for base, t := range c.baseElem {
		if !isIface(t) {
			continue
		}
		hn := c.heapName(base, 0)
		if !c.declSet[hn] {
			continue
		}
		switch {
		case strings.HasPrefix(base, "F!"), strings.HasPrefix(base, "C!"):
			out = append(out, "(forall ((r Int)) "+known("(select "+hn+" r)")+")")
		case strings.HasPrefix(base, "E!"):
			out = append(out, "(forall ((r Int) (i Int)) "+known("(select (select "+hn+" r) i)")+")")
		case strings.HasPrefix(base, "MV!"):
			if ks := c.baseKeySort[base]; ks != "" {
				out = append(out, "(forall ((r Int) (k "+ks+")) "+known("(select (select "+hn+" r) k)")+")")
			}
		}
	}
	return out
}

func (tt *TypeTable) tids2(k string) string {
	return itoa(tt.tids[k])
}

func itoa(i int) string {
	if i == 0 {
		return "0"
	}
	neg := i < 0
	if neg {
		i = -i
	}
	var b []byte
	for i > 0 {
		b = append([]byte{byte('0' + i%10)}, b...)
		i /= 10
	}
	if neg {
		return "-" + string(b)
	}
	return string(b)
}
