package main

import (
	"fmt"
	"go/types"
	"math/big"
	"regexp"
	"sort"
	"strings"
)

// SMT prelude shared by every obligation file.
const prelude = `(set-logic ALL)
(define-sort F64 () (_ FloatingPoint 11 53))
(declare-datatypes ((Slice 0)) (((mkSlice (sbase Int) (soff Int) (slen Int) (scap Int)))))
(declare-datatypes ((Iface 0)) (((inil) (ibox (ityp Int) (iint Int) (istr String) (ibool Bool) (ifp F64) (iref Int) (isl Slice)))))
(define-fun nilSlice () Slice (mkSlice 0 0 0 0))
(define-fun fpzero () F64 ((_ to_fp 11 53) RNE 0.0))
(define-fun wrapU ((x Int) (m Int)) Int (mod x m))
(define-fun wrapS ((x Int) (m Int)) Int (- (mod (+ x (div m 2)) m) (div m 2)))
(define-fun godiv ((x Int) (y Int)) Int (ite (>= x 0) (ite (> y 0) (div x y) (- (div x (- y)))) (ite (> y 0) (- (div (- x) y)) (div (- x) (- y)))))
(define-fun gomod ((x Int) (y Int)) Int (- x (* y (godiv x y))))
(define-fun runeLen ((r Int)) Int (ite (< r 0) (- 1) (ite (< r 128) 1 (ite (< r 2048) 2 (ite (and (>= r 55296) (<= r 57343)) (- 1) (ite (< r 65536) 3 (ite (<= r 1114111) 4 (- 1))))))))
(declare-fun blen (String) Int)
(declare-fun runeCount (String) Int)
(declare-fun tcomparable (Int) Bool)
(define-fun f64ofint ((x Int)) F64 ((_ to_fp 11 53) RNE (to_real x)))
(define-fun isIntegralF ((f F64)) Bool (and (not (fp.isNaN f)) (not (fp.isInfinite f)) (fp.eq (fp.roundToIntegral RTZ f) f)))
(define-fun goInt64OfF64 ((f F64)) Int
  (ite (and (not (fp.isNaN f)) (fp.lt ((_ to_fp 11 53) RNE (- 9223372036854777856.0)) f) (fp.lt f ((_ to_fp 11 53) RNE 9223372036854775808.0)))
       (to_int (fp.to_real (fp.roundToIntegral RTZ f))) (- 9223372036854775808)))
`

// Sort names
const (
	sBool   = "Bool"
	sInt    = "Int"
	sString = "String"
	sF64    = "F64"
	sSlice  = "Slice"
	sIface  = "Iface"
)

// symField makes a Go field name usable inside an SMT-LIB symbol (generated annotation fields start with a Greek capital lambda).
func symField(f string) string {
	ascii := true
	for _, r := range f {
		if r > 127 {
			ascii = false
		}
	}
	if ascii {
		return f
	}
	var b strings.Builder
	for _, r := range f {
		if r > 127 {
			fmt.Fprintf(&b, "u%04x", r)
		} else {
			b.WriteRune(r)
		}
	}
	return b.String()
}

func sanitize(s string) string {
	var b strings.Builder
	for _, r := range s {
		switch {
		case r >= 'a' && r <= 'z', r >= 'A' && r <= 'Z', r >= '0' && r <= '9', r == '_', r == '.':
			b.WriteRune(r)
		case r == '*':
			b.WriteString("ptr_")
		case r == '[':
			b.WriteString("_L")
		case r == ']':
			b.WriteString("R_")
		case r > 127:
			fmt.Fprintf(&b, "u%04x", r)
		default:
			b.WriteString("_")
		}
	}
	return b.String()
}

// TypeTable gives stable names, sorts and type ids to Go types.
type TypeTable struct {
	keys      map[string]types.Type // sanitized key -> representative
	dtDecls   []string              // datatype declarations in order
	dtDone    map[string]bool
	tids      map[string]int
	tidOrder  []string
	tidTypes  map[string]types.Type
	qualifier types.Qualifier
}

func newTypeTable() *TypeTable {
	return &TypeTable{
		keys: map[string]types.Type{}, dtDone: map[string]bool{}, tids: map[string]int{}, tidTypes: map[string]types.Type{},
		qualifier: func(p *types.Package) string { return p.Name() },
	}
}

var byteRe = regexp.MustCompile(`\bbyte\b`)
var runeRe = regexp.MustCompile(`\brune\b`)

func (tt *TypeTable) key(t types.Type) string {
	s := types.TypeString(t, tt.qualifier)
	s = byteRe.ReplaceAllString(s, "uint8")
	s = runeRe.ReplaceAllString(s, "int32")
	return sanitize(s)
}

func isSetType(t types.Type) (types.Type, bool) {
	n, ok := t.(*types.Named)
	if !ok {
		if a, ok2 := t.(*types.Alias); ok2 {
			return isSetType(types.Unalias(a))
		}
		return nil, false
	}
	if n.Obj().Name() == "V_Set" && n.TypeArgs() != nil && n.TypeArgs().Len() == 1 {
		return n.TypeArgs().At(0), true
	}
	return nil, false
}

// isBufferType: bytes.Buffer and strings.Builder are modelled as string accumulators.
func isBufferType(t types.Type) bool {
	n, ok := types.Unalias(t).(*types.Named)
	if !ok || n.Obj().Pkg() == nil {
		return false
	}
	p, nm := n.Obj().Pkg().Path(), n.Obj().Name()
	return (p == "bytes" && nm == "Buffer") || (p == "strings" && nm == "Builder")
}

func isSeqType(t types.Type) (types.Type, bool) {
	n, ok := t.(*types.Named)
	if !ok {
		return nil, false
	}
	if n.Obj().Name() == "V_Seq" && n.TypeArgs() != nil && n.TypeArgs().Len() == 1 {
		return n.TypeArgs().At(0), true
	}
	return nil, false
}

// sortOf maps a Go type to an SMT sort name, declaring datatypes on demand.
func (tt *TypeTable) sortOf(t types.Type) string {
	t = types.Unalias(t)
	if k, ok := isSetType(t); ok {
		return "(Array " + tt.sortOf(k) + " Bool)"
	}
	if e, ok := isSeqType(t); ok {
		return tt.seqSort(e)
	}
	if n, ok := t.(*types.Named); ok && n.Obj().Name() == "V_Real" {
		return "Real"
	}
	if isBufferType(t) {
		return sString
	}
	if isReflectValue(t) {
		return sIface // reflect mini-model: a Value is the interface value it wraps
	}
	switch u := t.Underlying().(type) {
	case *types.Basic:
		switch {
		case u.Info()&types.IsBoolean != 0:
			return sBool
		case u.Info()&types.IsInteger != 0:
			return sInt
		case u.Info()&types.IsString != 0:
			return sString
		case u.Info()&types.IsFloat != 0:
			return sF64
		case u.Kind() == types.UnsafePointer, u.Kind() == types.UntypedNil:
			return sInt
		}
		return sInt
	case *types.Pointer, *types.Map, *types.Chan, *types.Signature:
		return sInt
	case *types.Slice:
		return sSlice
	case *types.Interface:
		return sIface
	case *types.Struct:
		return tt.structSort(t, u)
	case *types.Array:
		return "(Array Int " + tt.sortOf(u.Elem()) + ")"
	case *types.Tuple:
		return sInt
	case *types.TypeParam:
		return sIface
	}
	return sInt
}

func (tt *TypeTable) seqSort(elem types.Type) string {
	es := tt.sortOf(elem)
	name := "Seq!" + sanitize(es)
	if !tt.dtDone[name] {
		tt.dtDone[name] = true
		tt.dtDecls = append(tt.dtDecls, fmt.Sprintf("(declare-datatypes ((%s 0)) (((mk%s (qlen%s Int) (qel%s (Array Int %s))))))", name, name, name, name, es))
	}
	return name
}

func (tt *TypeTable) structName(t types.Type) string {
	return "S!" + tt.key(t)
}

func (tt *TypeTable) structSort(t types.Type, u *types.Struct) string {
	name := tt.structName(t)
	if tt.dtDone[name] {
		return name
	}
	tt.dtDone[name] = true
	var fs []string
	for i := 0; i < u.NumFields(); i++ {
		f := u.Field(i)
		fs = append(fs, fmt.Sprintf("(%s %s)", tt.fieldAcc(t, f.Name()), tt.sortOf(f.Type())))
	}
	if len(fs) == 0 {
		fs = append(fs, fmt.Sprintf("(%s Int)", name+"!dummy"))
	}
	tt.dtDecls = append(tt.dtDecls, fmt.Sprintf("(declare-datatypes ((%s 0)) (((mk!%s %s))))", name, name, strings.Join(fs, " ")))
	return name
}

func (tt *TypeTable) fieldAcc(structT types.Type, field string) string {
	return "f!" + tt.key(structT) + "!" + symField(field)
}

// tid returns the type id (as SMT Int literal) for a dynamic type.
func (tt *TypeTable) tid(t types.Type) string {
	t = types.Unalias(t)
	k := types.TypeString(t, nil)
	if id, ok := tt.tids[k]; ok {
		return fmt.Sprint(id)
	}
	id := len(tt.tids) + 1
	tt.tids[k] = id
	tt.tidOrder = append(tt.tidOrder, k)
	tt.tidTypes[k] = t
	return fmt.Sprint(id)
}

// tidName gives a type id to a pseudo-type identified by name.
func (tt *TypeTable) tidName(name string) string {
	if id, ok := tt.tids[name]; ok {
		return fmt.Sprint(id)
	}
	id := len(tt.tids) + 1
	tt.tids[name] = id
	tt.tidOrder = append(tt.tidOrder, name)
	tt.tidTypes[name] = nil
	return fmt.Sprint(id)
}

// tidAxioms: comparability of known dynamic types.
func (tt *TypeTable) tidAxioms() []string {
	var out []string
	for _, k := range tt.tidOrder {
		t := tt.tidTypes[k]
		c := "true"
		if t != nil && !types.Comparable(t) {
			c = "false"
		}
		// structs/arrays containing interfaces may still panic; treat as comparable per go/types
		out = append(out, fmt.Sprintf("(assert (= (tcomparable %d) %s))", tt.tids[k], c))
	}
	return out
}

// ---------- term helpers ----------

func and(xs ...string) string {
	var ys []string
	for _, x := range xs {
		if x == "true" || x == "" {
			continue
		}
		if x == "false" {
			return "false"
		}
		ys = append(ys, x)
	}
	switch len(ys) {
	case 0:
		return "true"
	case 1:
		return ys[0]
	}
	return "(and " + strings.Join(ys, " ") + ")"
}

func or(xs ...string) string {
	var ys []string
	for _, x := range xs {
		if x == "false" || x == "" {
			continue
		}
		if x == "true" {
			return "true"
		}
		ys = append(ys, x)
	}
	switch len(ys) {
	case 0:
		return "false"
	case 1:
		return ys[0]
	}
	return "(or " + strings.Join(ys, " ") + ")"
}

func not(x string) string {
	switch x {
	case "true":
		return "false"
	case "false":
		return "true"
	}
	if strings.HasPrefix(x, "(not ") && balancedSingle(x[5:len(x)-1]) {
		return x[5 : len(x)-1]
	}
	return "(not " + x + ")"
}

func balancedSingle(s string) bool {
	// true if s is a single s-expression
	s = strings.TrimSpace(s)
	if s == "" {
		return false
	}
	if s[0] != '(' {
		return !strings.ContainsAny(s, " ()") || s[0] == '"'
	}
	d := 0
	inStr := false
	for i := 0; i < len(s); i++ {
		c := s[i]
		if inStr {
			if c == '"' {
				inStr = false
			}
			continue
		}
		switch c {
		case '"':
			inStr = true
		case '(':
			d++
		case ')':
			d--
			if d == 0 && i != len(s)-1 {
				return false
			}
		}
	}
	return d == 0
}

func implies(a, b string) string {
	if a == "true" {
		return b
	}
	if a == "false" || b == "true" {
		return "true"
	}
	return "(=> " + a + " " + b + ")"
}

func ite(c, a, b string) string {
	if c == "true" {
		return a
	}
	if c == "false" {
		return b
	}
	if a == b {
		return a
	}
	return "(ite " + c + " " + a + " " + b + ")"
}

func eq(a, b string) string {
	if a == b {
		return "true"
	}
	return "(= " + a + " " + b + ")"
}

func sel(arr, idx string) string       { return "(select " + arr + " " + idx + ")" }
func store(arr, idx, v string) string  { return "(store " + arr + " " + idx + " " + v + ")" }
func app(f string, args ...string) string {
	if len(args) == 0 {
		return f
	}
	return "(" + f + " " + strings.Join(args, " ") + ")"
}

func intLit(v *big.Int) string {
	if v.Sign() < 0 {
		return "(- " + new(big.Int).Neg(v).String() + ")"
	}
	return v.String()
}

func intLit64(v int64) string { return intLit(big.NewInt(v)) }

func strLit(s string) string {
	var b strings.Builder
	b.WriteByte('"')
	for _, r := range s {
		switch {
		case r == '"':
			b.WriteString(`""`)
		case r == '\\':
			b.WriteString(`\u{5c}`)
		case r < 0x20 || r > 0x7e:
			fmt.Fprintf(&b, `\u{%x}`, r)
		default:
			b.WriteRune(r)
		}
	}
	b.WriteByte('"')
	return b.String()
}

func pow2(n int) *big.Int { return new(big.Int).Lsh(big.NewInt(1), uint(n)) }

// intRange returns (lo, hi, bits, signed) for an integer basic type.
func intRange(b *types.Basic) (lo, hi *big.Int, bits int, signed bool) {
	switch b.Kind() {
	case types.Int8:
		bits, signed = 8, true
	case types.Int16:
		bits, signed = 16, true
	case types.Int32:
		bits, signed = 32, true
	case types.Int64, types.Int:
		bits, signed = 64, true
	case types.Uint8:
		bits = 8
	case types.Uint16:
		bits = 16
	case types.Uint32:
		bits = 32
	case types.Uint64, types.Uint, types.Uintptr:
		bits = 64
	default:
		return nil, nil, 0, false
	}
	if signed {
		lo = new(big.Int).Neg(pow2(bits - 1))
		hi = new(big.Int).Sub(pow2(bits-1), big.NewInt(1))
	} else {
		lo = big.NewInt(0)
		hi = new(big.Int).Sub(pow2(bits), big.NewInt(1))
	}
	return
}

func wrapTo(term string, b *types.Basic) string {
	_, _, bits, signed := intRange(b)
	if bits == 0 {
		return term
	}
	if signed {
		return "(wrapS " + term + " " + pow2(bits).String() + ")"
	}
	return "(wrapU " + term + " " + pow2(bits).String() + ")"
}

func sortedKeys[V any](m map[string]V) []string {
	ks := make([]string, 0, len(m))
	for k := range m {
		ks = append(ks, k)
	}
	sort.Strings(ks)
	return ks
}
