package main

import (
	"fmt"
	"go/ast"
	"go/token"
	"go/types"
	"strings"
)

func (c *FnCtx) mlenFn(keySort string) string {
	fn := "mlen!" + sanitize(keySort)
	if !c.declSet[fn] {
		set := "(Array " + keySort + " Bool)"
		c.declareFun(fn, []string{set}, sInt)
		c.decls = append(c.decls,
			fmt.Sprintf("(assert (forall ((d %s)) (! (>= (%s d) 0) :pattern ((%s d)))))", set, fn, fn),
			fmt.Sprintf("(assert (= (%s ((as const %s) false)) 0))", fn, set),
			fmt.Sprintf("(assert (forall ((d %s) (k %s)) (! (=> (select d k) (> (%s d) 0)) :pattern ((%s d) (select d k)))))", set, keySort, fn, fn),
			fmt.Sprintf("(assert (forall ((d %s) (k %s)) (! (= (%s (store d k true)) (+ (%s d) (ite (select d k) 0 1))) :pattern ((%s (store d k true))))))", set, keySort, fn, fn, fn),
			fmt.Sprintf("(assert (forall ((d1 %s) (d2 %s)) (! (=> (and (= (%s d1) (%s d2)) (forall ((k %s)) (=> (select d1 k) (select d2 k)))) (= d1 d2)) :pattern ((%s d1) (%s d2)))))", set, set, fn, fn, keySort, fn, fn),
			fmt.Sprintf("(assert (forall ((d %s) (k %s)) (! (= (%s (store d k false)) (- (%s d) (ite (select d k) 1 0))) :pattern ((%s (store d k false))))))", set, keySort, fn, fn, fn),
		)
	}
	return fn
}

func (c *FnCtx) lenOf(v string, t types.Type, st *State) string {
	if _, ok := isSeqType(t); ok {
		return "(qlen" + c.tt.sortOf(t) + " " + v + ")"
	}
	switch u := t.Underlying().(type) {
	case *types.Slice:
		return "(slen " + v + ")"
	case *types.Basic:
		if u.Info()&types.IsString != 0 {
			c.blenFacts(st, v)
			return "(blen " + v + ")"
		}
	case *types.Map:
		dn, ds, _, _ := c.mapArrs(u)
		fn := c.mlenFn(c.tt.sortOf(u.Key()))
		return "(" + fn + " " + sel(c.h(st, dn, ds), v) + ")"
	case *types.Array:
		return fmt.Sprint(u.Len())
	case *types.Pointer:
		if a, ok := u.Elem().Underlying().(*types.Array); ok {
			return fmt.Sprint(a.Len())
		}
	}
	panic(unsupported{"len of " + t.String()})
}

func (c *FnCtx) evalBuiltin(x *ast.CallExpr, name string, st *State) []string {
	switch name {
	case "len":
		v := c.eval(x.Args[0], st)
		return []string{c.lenOf(v, c.typeOf(x.Args[0]), st)}
	case "cap":
		v := c.eval(x.Args[0], st)
		return []string{"(scap " + v + ")"}
	case "append":
		return []string{c.evalAppend(x, st)}
	case "delete":
		mt := c.typeOf(x.Args[0]).Underlying().(*types.Map)
		m := c.eval(x.Args[0], st)
		k := c.convertTo(c.eval(x.Args[1], st), c.typeOf(x.Args[1]), mt.Key(), st)
		c.frameCheck(st, "map", m, c.src(x), x.Pos())
		c.mapDelete(st, mt, m, k)
		return nil
	case "make":
		t := c.typeOf(x.Args[0])
		switch u := t.Underlying().(type) {
		case *types.Slice:
			n := c.eval(x.Args[1], st)
			cp := n
			if len(x.Args) > 2 {
				cp = c.eval(x.Args[2], st)
			}
			c.safety(st, "makeslice", c.src(x), and("(<= 0 "+n+")", "(<= "+n+" "+cp+")"), x.Pos())
			base := c.newRef(st, "arr")
			an, asrt := c.elemsArr(u.Elem())
			c.setH(st, an, asrt, store(c.h(st, an, asrt), base, "((as const (Array Int "+c.tt.sortOf(u.Elem())+")) "+c.zero(u.Elem())+")"))
			return []string{"(mkSlice " + base + " 0 " + n + " " + cp + ")"}
		case *types.Map:
			m := c.newRef(st, "map")
			dn, ds, _, _ := c.mapArrs(u)
			inner := "(Array " + c.tt.sortOf(u.Key()) + " Bool)"
			c.setH(st, dn, ds, store(c.h(st, dn, ds), m, "((as const "+inner+") false)"))
			for _, a := range x.Args[1:] {
				c.eval(a, st)
			}
			return []string{m}
		}
		c.fail(x.Pos(), "unsupported make(%s)", t)
	case "new":
		t := c.typeOf(x.Args[0])
		if _, ok := t.Underlying().(*types.Struct); ok {
			return []string{c.allocStruct(st, t, c.zero(t))}
		}
		r := c.newRef(st, "cell")
		n, srt := c.cellArr(t)
		c.setH(st, n, srt, store(c.h(st, n, srt), r, c.zero(t)))
		return []string{r}
	case "panic":
		for _, a := range x.Args {
			c.eval(a, st)
		}
		c.safety(st, "panic", c.src(x), "false", x.Pos())
		st.addFact("false")
		return nil
	case "min", "max":
		t := c.typeOf(x)
		cur := c.eval(x.Args[0], st)
		for _, a := range x.Args[1:] {
			v := c.eval(a, st)
			var lt string
			if b, ok := t.Underlying().(*types.Basic); ok && b.Info()&types.IsFloat != 0 {
				lt = "(fp.lt " + cur + " " + v + ")"
			} else if ok && b.Info()&types.IsString != 0 {
				lt = "(str.< " + cur + " " + v + ")"
			} else {
				lt = "(< " + cur + " " + v + ")"
			}
			if name == "min" {
				cur = ite(lt, cur, v)
			} else {
				cur = ite(lt, v, cur)
			}
		}
		return []string{cur}
	case "print", "println":
		for _, a := range x.Args {
			c.eval(a, st)
		}
		return nil
	case "copy":
		return []string{c.evalCopy(x, st)}
	}
	c.fail(x.Pos(), "unsupported builtin %s", name)
	return nil
}

// evalAppend models append with Go's aliasing semantics: in place when capacity allows (visible to every
// alias of the backing array), a fresh array otherwise. The new element heap is a fresh array constrained by
// frame and content facts, which keeps the terms small.
func (c *FnCtx) evalAppend(x *ast.CallExpr, st *State) string {
	st0 := c.typeOf(x.Args[0])
	sl, ok := st0.Underlying().(*types.Slice)
	if !ok {
		c.fail(x.Pos(), "append to %s", st0)
	}
	if c.specMode > 0 {
		c.fail(x.Pos(), "append in specification")
	}
	et := sl.Elem()
	es := c.tt.sortOf(et)
	s0 := c.eval(x.Args[0], st)
	if s0 == nilPlaceholder {
		s0 = "nilSlice"
	}
	s := c.name(st, "aps", s0, sSlice)
	an, asrt := c.elemsArr(et)
	rowSort := "(Array Int " + es + ")"
	var tlen string
	var tget func(i string) string
	var tSlice, tRow string
	noop := "false"
	if x.Ellipsis.IsValid() {
		tt := c.typeOf(x.Args[1])
		if b, ok := tt.Underlying().(*types.Basic); ok && b.Info()&types.IsString != 0 {
			str := c.eval(x.Args[1], st)
			c.blenFacts(st, str)
			c.declareFun("byteAt", []string{sString, sInt}, sInt)
			tlen = "(blen " + str + ")"
			tget = func(i string) string { return "(byteAt " + str + " " + i + ")" }
		} else {
			t := c.eval(x.Args[1], st)
			if t == nilPlaceholder {
				t = "nilSlice"
			}
			t = c.name(st, "apt", t, sSlice)
			tlen = "(slen " + t + ")"
			trow := c.fresh("aptrow", rowSort)
			st.addDef(eq(trow, sel(c.h(st, an, asrt), "(sbase "+t+")")))
			tget = func(i string) string { return sel(trow, "(+ (soff "+t+") "+i+")") }
			tSlice, tRow = t, trow
		}
		noop = eq(tlen, "0")
	} else {
		var vals []string
		for _, a := range x.Args[1:] {
			vals = append(vals, c.name(st, "apv", c.convertTo(c.eval(a, st), c.typeOf(a), et, st), es))
		}
		if len(vals) == 0 {
			return s
		}
		tlen = fmt.Sprint(len(vals))
		tget = func(i string) string {
			t := vals[len(vals)-1]
			for k := len(vals) - 2; k >= 0; k-- {
				t = ite(eq(i, fmt.Sprint(k)), vals[k], t)
			}
			return t
		}
	}
	E := c.h(st, an, asrt)
	oldRow := c.fresh("aprow", rowSort)
	st.addDef(eq(oldRow, sel(E, "(sbase "+s+")")))
	newLen := c.fresh("aplen", sInt)
	st.addDef(eq(newLen, "(+ (slen "+s+") "+tlen+")"))
	fits := c.fresh("apfits", sBool)
	st.addDef(eq(fits, and("(<= "+newLen+" (scap "+s+"))", not(eq("(sbase "+s+")", "0")))))
	nb := c.fresh("new_arr", sInt)
	al := c.alloc(st)
	st.addDef(and("(> "+nb+" 0)", not(sel(al, nb))))
	ncap := c.fresh("ncap", sInt)
	st.addDef("(>= " + ncap + " " + newLen + ")")
	resA := "(mkSlice (sbase " + s + ") (soff " + s + ") " + newLen + " (scap " + s + "))"
	resB := "(mkSlice " + nb + " 0 " + newLen + " " + ncap + ")"
	res := c.fresh("apres", sSlice)
	st.addDef(eq(res, ite(noop, s, ite(fits, resA, resB))))
	c.frameCheckAppend(st, s, fits, noop, x)
	E2 := c.fresh("E_ap", asrt)
	resRow := c.fresh("aprr", rowSort)
	lo := "(+ (soff " + s + ") (slen " + s + "))"
	st.addDef(fmt.Sprintf("(forall ((b Int)) (! (=> (not (= b (sbase %s))) (= (select %s b) (select %s b))) :pattern ((select %s b))))", res, E2, E, E2))
	st.addDef(implies(noop, eq(E2, E)))
	st.addDef(eq(resRow, sel(E2, "(sbase "+res+")")))
	st.addDef(fmt.Sprintf("(forall ((i Int)) (! (=> (and (<= (soff %s) i) (< i (+ (soff %s) (slen %s)))) (= (select %s i) (select %s (+ (soff %s) (- i (soff %s)))))) :pattern ((select %s i))))",
		res, res, s, resRow, oldRow, s, res, resRow))
	st.addDef(fmt.Sprintf("(forall ((i Int)) (! (=> (and (<= (+ (soff %s) (slen %s)) i) (< i (+ (soff %s) %s))) (= (select %s i) %s)) :pattern ((select %s i))))",
		res, s, res, newLen, resRow, tget("(- i (+ (soff "+res+") (slen "+s+")))"), resRow))
	st.addDef(implies(and(fits, not(noop)), fmt.Sprintf("(forall ((i Int)) (! (=> (or (< i %s) (>= i (+ %s %s))) (= (select %s i) (select %s i))) :pattern ((select %s i))))", lo, lo, tlen, resRow, oldRow, resRow)))
	st.addDef(eq("(slen "+res+")", newLen))
	// the same facts triggered from the source rows (lets the solver find shifted-index witnesses)
	st.addDef(fmt.Sprintf("(forall ((x Int)) (! (=> (and (<= (soff %s) x) (< x (+ (soff %s) (slen %s)))) (= (select %s (+ (soff %s) (- x (soff %s)))) (select %s x))) :pattern ((select %s x))))",
		s, s, s, resRow, res, s, oldRow, oldRow))
	if tSlice != "" {
		st.addDef(fmt.Sprintf("(forall ((x Int)) (! (=> (and (<= (soff %s) x) (< x (+ (soff %s) (slen %s)))) (= (select %s (+ (soff %s) (slen %s) (- x (soff %s)))) (select %s x))) :pattern ((select %s x))))",
			tSlice, tSlice, tSlice, resRow, res, s, tSlice, tRow, tRow))
	}
	c.setH(st, "alloc", "(Array Int Bool)", ite(or(fits, noop), al, store(al, nb, "true")))
	c.setH(st, an, asrt, E2)
	st.addDef(c.typeInv(st, res, st0, 0))
	return res
}

// frameCheckAppend: an in-place append writes into the backing array beyond len. That is a frame event when the
// array existed at entry and was not handed over as a slice argument: appending in place to a slice read out of an
// input structure (p.Elem, a map value, a global) can overwrite what another holder of the same array appended
// earlier. Appending to a slice-typed parameter itself is Go's usual ownership convention and is allowed; anything
// else must be permitted by a modifies elems() clause.
func (c *FnCtx) frameCheckAppend(st *State, s, fits, noop string, x *ast.CallExpr) {
	if c.specMode > 0 || !c.frameOn || c.con == nil || c.con.ModHeap {
		return
	}
	entryAlloc := c.heapName("alloc", 0)
	c.declare(entryAlloc, "(Array Int Bool)")
	allowed := []string{not(fits), noop, not(sel(entryAlloc, "(sbase "+s+")"))}
	for _, it := range c.inputTerms {
		if _, ok := it.typ.Underlying().(*types.Slice); ok {
			allowed = append(allowed, eq("(sbase "+s+")", "(sbase "+it.term+")"))
		}
	}
	for _, m := range c.con.Modifies {
		if m.Kind == "elems" {
			allowed = append(allowed, eq("(sbase "+s+")", "(sbase "+c.evalModObj(m)+")"))
		}
	}
	save := c.curProp
	c.curProp = c.frameProp()
	c.oblige(st, "frame", "frame["+c.src(x)+"]", or(allowed...), x.Pos(), c.src(x))
	c.curProp = save
}

func (c *FnCtx) evalCopy(x *ast.CallExpr, st *State) string {
	dt := c.typeOf(x.Args[0]).Underlying().(*types.Slice)
	d := c.name(st, "cpd", c.eval(x.Args[0], st), sSlice)
	srcT := c.typeOf(x.Args[1])
	an, asrt := c.elemsArr(dt.Elem())
	rowSort := "(Array Int " + c.tt.sortOf(dt.Elem()) + ")"
	var slen string
	var sget func(i string) string
	if b, ok := srcT.Underlying().(*types.Basic); ok && b.Info()&types.IsString != 0 {
		str := c.eval(x.Args[1], st)
		c.blenFacts(st, str)
		c.declareFun("byteAt", []string{sString, sInt}, sInt)
		slen = "(blen " + str + ")"
		sget = func(i string) string { return "(byteAt " + str + " " + i + ")" }
	} else {
		s := c.name(st, "cps", c.eval(x.Args[1], st), sSlice)
		slen = "(slen " + s + ")"
		srow := c.name(st, "cpsrow", sel(c.h(st, an, asrt), "(sbase "+s+")"), rowSort)
		sget = func(i string) string { return sel(srow, "(+ (soff "+s+") "+i+")") }
	}
	n := c.name(st, "cpn", ite("(< (slen "+d+") "+slen+")", "(slen "+d+")", slen), sInt)
	E := c.h(st, an, asrt)
	oldRow := c.name(st, "cprow", sel(E, "(sbase "+d+")"), rowSort)
	nr := c.fresh("cprow", rowSort)
	st.addDef(fmt.Sprintf("(forall ((j Int)) (! (= (select %s j) (ite (and (<= (soff %s) j) (< j (+ (soff %s) %s))) %s (select %s j))) :pattern ((select %s j))))",
		nr, d, d, n, sget("(- j (soff "+d+"))"), oldRow, nr))
	c.frameCheck(st, "elems", "(sbase "+d+")", c.src(x), x.Pos())
	c.setH(st, an, asrt, ite(eq(n, "0"), E, store(E, "(sbase "+d+")", nr)))
	return n
}

// ---------- conversions ----------

func (c *FnCtx) evalConversion(x *ast.CallExpr, to types.Type, st *State) string {
	arg := x.Args[0]
	from := c.typeOf(arg)
	v := c.eval(arg, st)
	if v == nilPlaceholder || isUntypedNil(from) {
		return c.zero(to)
	}
	if isIface(to) {
		return c.box(v, from, st)
	}
	fb, fok := from.Underlying().(*types.Basic)
	tb, tok := to.Underlying().(*types.Basic)
	if fok && tok {
		switch {
		case fb.Info()&types.IsInteger != 0 && tb.Info()&types.IsInteger != 0:
			if c.specMode > 0 {
				return v // mathematical integers in specifications
			}
			lo, hi, _, _ := intRange(tb)
			flo, fhi, _, _ := intRange(fb)
			if flo != nil && lo != nil && flo.Cmp(lo) >= 0 && fhi.Cmp(hi) <= 0 {
				return v // widening
			}
			return wrapTo(v, tb)
		case fb.Info()&types.IsInteger != 0 && tb.Info()&types.IsFloat != 0:
			return "(f64ofint " + v + ")"
		case fb.Info()&types.IsFloat != 0 && tb.Info()&types.IsInteger != 0:
			r := "(goInt64OfF64 " + v + ")"
			if c.specMode == 0 {
				// name the result and state its characterisation over reals (a consequence of the definition that
				// spares the solver the to_int / roundToIntegral reasoning)
				n := c.fresh("f2i", sInt)
				st.addDef(eq(n, r))
				rv := "(fp.to_real " + v + ")"
				st.addDef("(ite (and (not (fp.isNaN " + v + ")) (not (fp.isInfinite " + v + ")) (< (- 9223372036854775809.0) " + rv + ") (< " + rv + " 9223372036854775808.0)) " +
					"(and (=> (>= " + rv + " 0.0) (and (<= (to_real " + n + ") " + rv + ") (< (- " + rv + " 1.0) (to_real " + n + ")))) " +
					"(=> (< " + rv + " 0.0) (and (>= (to_real " + n + ") " + rv + ") (< (to_real " + n + ") (+ " + rv + " 1.0))))) " +
					"(= " + n + " (- 9223372036854775808)))")
				r = n
			}
			if tb.Kind() == types.Int64 || tb.Kind() == types.Int {
				return r
			}
			if tb.Kind() == types.Uint64 || tb.Kind() == types.Uint {
				c.declareFun("goUint64OfF64", []string{sF64}, sInt)
				u := "(goUint64OfF64 " + v + ")"
				st.addFact(implies(and(not("(fp.isNaN "+v+")"), "(fp.geq "+v+" fpzero)", "(fp.lt "+v+" ((_ to_fp 11 53) RNE 18446744073709551616.0))"),
					eq(u, "(to_int (fp.to_real (fp.roundToIntegral RTZ "+v+")))")))
				st.addFact(and("(<= 0 "+u+")", "(<= "+u+" 18446744073709551615)"))
				return u
			}
			return wrapTo(r, tb)
		case fb.Info()&types.IsFloat != 0 && tb.Info()&types.IsFloat != 0:
			return v
		case fb.Info()&types.IsString != 0 && tb.Info()&types.IsString != 0:
			return v
		case fb.Info()&types.IsInteger != 0 && tb.Info()&types.IsString != 0:
			c.declareFun("strOfRune", []string{sInt}, sString)
			r := "(strOfRune " + v + ")"
			if c.specMode == 0 {
				st.addFact(implies(and("(<= 0 "+v+")", "(< "+v+" 128)"), eq(r, "(str.from_code "+v+")")))
				st.addFact(and("(>= (blen "+r+") 1)", "(<= (blen "+r+") 4)", "(= (= (blen "+r+") 1) (or (< "+v+" 128) (< "+v+" 0) (> "+v+" 1114111)))"))
			}
			return r
		case fb.Info()&types.IsBoolean != 0 && tb.Info()&types.IsBoolean != 0:
			return v
		}
	}
	if fok && fb.Info()&types.IsString != 0 {
		if sl, ok := to.Underlying().(*types.Slice); ok {
			// []byte(s) / []rune(s): fresh array tied to s by an uninterpreted relation
			base := c.newRef(st, "bytes")
			an, asrt := c.elemsArr(sl.Elem())
			c.declareFun("strOfBytes", []string{"(Array Int Int)", sInt, sInt}, sString)
			c.blenFacts(st, v)
			row := sel(c.h(st, an, asrt), base)
			ln := "(blen " + v + ")"
			if eb, ok := sl.Elem().Underlying().(*types.Basic); ok && eb.Kind() == types.Int32 {
				ln = "(runeCount " + v + ")"
				c.declareFun("runeAt", []string{sString, sInt}, sInt)
				c.runeRows = append(c.runeRows, [3]string{v, row, ln})
				if c.unroll > 0 {
					// counterexample search only: a short, valid UTF-8 string's byte length is the sum of its rune widths
					var sum []string
					for i := 0; i < 4; i++ {
						sum = append(sum, fmt.Sprintf("(ite (> %s %d) (runeLen (select %s %d)) 0)", ln, i, row, i))
					}
					st.addFact(implies("(<= "+ln+" 4)", eq("(blen "+v+")", "(+ "+strings.Join(sum, " ")+")")))
					st.addFact("(forall ((i Int)) (=> (and (<= 0 i) (< i " + ln + ")) (> (runeLen (select " + row + " i)) 0)))")
				}
				st.addFact(and("(<= 0 "+ln+")", "(<= "+ln+" (blen "+v+"))", "(= (= "+ln+" 0) (= "+v+" \"\"))",
					implies("(> "+ln+" 0)", eq(sel(row, "0"), "(runeAt "+v+" 0)")),
					// bridge to the SMT string for an ASCII first character (lets models be replayed)
					implies(and("(> "+ln+" 0)", "(< (runeAt "+v+" 0) 128)"), eq("(str.to_code (str.at "+v+" 0))", "(runeAt "+v+" 0)")),
					implies(and("(> (str.len "+v+") 0)", "(< (str.to_code (str.at "+v+" 0)) 128)"), eq("(str.to_code (str.at "+v+" 0))", "(runeAt "+v+" 0)"))))
			} else {
				st.addFact(eq("(strOfBytes "+row+" 0 "+ln+")", v))
			}
			return "(mkSlice " + base + " 0 " + ln + " " + ln + ")"
		}
	}
	if tok && tb.Info()&types.IsString != 0 {
		if sl, ok := from.Underlying().(*types.Slice); ok {
			an, asrt := c.elemsArr(sl.Elem())
			c.declareFun("strOfBytes", []string{"(Array Int Int)", sInt, sInt}, sString)
			r := "(strOfBytes " + sel(c.h(st, an, asrt), "(sbase "+v+")") + " (soff " + v + ") (slen " + v + "))"
			if c.specMode == 0 {
				r = c.name(st, "str", r, sString)
				st.addFact(eq("(blen "+r+")", "(slen "+v+")"))
			}
			return r
		}
	}
	// same underlying representation
	if c.tt.sortOf(from) == c.tt.sortOf(to) {
		return v
	}
	c.fail(x.Pos(), "unsupported conversion %s -> %s", from, to)
	return ""
}

// ---------- spec builtins ----------

func (c *FnCtx) evalSpecBuiltin(x *ast.CallExpr, fobj *types.Func, st *State) string {
	name := fobj.Name()
	switch name {
	case "V_forall", "V_exists":
		lit, ok := unparen(x.Args[0]).(*ast.FuncLit)
		if !ok {
			c.fail(x.Pos(), "quantifier needs a function literal")
		}
		env := map[types.Object]string{}
		var order []types.Object // binder order (map iteration must not decide the SMT text)
		var binders []string
		var ranges []string
		for _, f := range lit.Type.Params.List {
			for _, nm := range f.Names {
				obj := c.info().Defs[nm]
				c.nfresh++
				bn := fmt.Sprintf("%s!q%d", sanitize(nm.Name), c.nfresh)
				env[obj] = bn
				order = append(order, obj)
				binders = append(binders, "("+bn+" "+c.tt.sortOf(obj.Type())+")")
				if b, ok := obj.Type().Underlying().(*types.Basic); ok && b.Info()&types.IsInteger != 0 && b.Kind() != types.Int {
					ranges = append(ranges, c.typeInv(st, bn, obj.Type(), 0))
				}
			}
		}
		c.specEnv = append(c.specEnv, env)
		c.specMode++
		rs, ok := lit.Body.List[0].(*ast.ReturnStmt)
		if !ok {
			c.fail(x.Pos(), "quantifier body")
		}
		body := c.eval(rs.Results[0], st)
		c.specMode--
		c.specEnv = c.specEnv[:len(c.specEnv)-1]
		if len(ranges) == 0 && !noAbsolutize {
			// slice indices relative to a header become absolute array positions (arithmetic-free triggers)
			for _, obj := range order {
				bn := env[obj]
				if c.tt.sortOf(obj.Type()) != sInt {
					continue
				}
				pn := bn + "p"
				var siblings []string
				for _, o2 := range order {
					if o2 != obj {
						siblings = append(siblings, env[o2])
					}
				}
				if nb, ok := absolutize(body, bn, pn, siblings); ok {
					body = nb
					env[obj] = pn
					for i, b := range binders {
						if b == "("+bn+" Int)" {
							binders[i] = "(" + pn + " Int)"
						}
					}
				}
			}
		}
		if name == "V_forall" {
			inner := implies(and(ranges...), body)
			if len(env) == 1 {
				for _, bn := range env {
					if pats := directPatterns(inner, bn); len(pats) > 0 {
						var ps []string
						for _, p := range pats {
							ps = append(ps, ":pattern ("+p+")")
						}
						return "(forall (" + strings.Join(binders, " ") + ") (! " + inner + " " + strings.Join(ps, " ") + "))"
					}
				}
			}
			return "(forall (" + strings.Join(binders, " ") + ") " + inner + ")"
		}
		return "(exists (" + strings.Join(binders, " ") + ") " + and(append(ranges, body)...) + ")"
	case "V_implies":
		return implies(c.eval(x.Args[0], st), c.eval(x.Args[1], st))
	case "V_iff":
		return eq(c.eval(x.Args[0], st), c.eval(x.Args[1], st))
	case "V_ite":
		t := c.typeOf(x)
		a := c.convertTo(c.eval(x.Args[1], st), c.typeOf(x.Args[1]), t, st)
		b := c.convertTo(c.eval(x.Args[2], st), c.typeOf(x.Args[2]), t, st)
		return ite(c.eval(x.Args[0], st), a, b)
	case "V_in":
		k := c.eval(x.Args[0], st)
		ct := c.typeOf(x.Args[1])
		cv := c.eval(x.Args[1], st)
		if _, ok := isSetType(ct); ok {
			return sel(cv, k)
		}
		switch u := ct.Underlying().(type) {
		case *types.Map:
			k = c.convertTo(k, c.typeOf(x.Args[0]), u.Key(), st)
			dn, ds, _, _ := c.mapArrs(u)
			return sel(sel(c.h(st, dn, ds), cv), k)
		case *types.Slice:
			c.nfresh++
			bn := fmt.Sprintf("i!q%d", c.nfresh)
			an, asrt := c.elemsArr(u.Elem())
			return "(exists ((" + bn + " Int)) (and (<= 0 " + bn + ") (< " + bn + " (slen " + cv + ")) (= " + sel(sel(c.h(st, an, asrt), "(sbase "+cv+")"), "(+ (soff "+cv+") "+bn+")") + " " + k + ")))"
		}
		c.fail(x.Pos(), "in() on %s", ct)
	case "V_old":
		if c.oldState == nil {
			c.fail(x.Pos(), "old() outside a postcondition")
		}
		return c.eval(x.Args[0], c.oldState)
	case "V_fresh", "V_elemsfresh", "V_allocated":
		if c.oldState == nil && name != "V_allocated" {
			c.fail(x.Pos(), "fresh() outside a postcondition")
		}
		v := c.eval(x.Args[0], st)
		t := c.typeOf(x.Args[0])
		ref := v
		if _, ok := t.Underlying().(*types.Slice); ok {
			ref = "(sbase " + v + ")"
		}
		if name == "V_allocated" {
			return sel(c.alloc(st), ref)
		}
		oldAlloc := c.alloc(c.oldState)
		if name == "V_elemsfresh" {
			return or(eq(ref, "0"), and(not(sel(oldAlloc, ref)), sel(c.alloc(st), ref)))
		}
		return and(not(eq(ref, "0")), not(sel(oldAlloc, ref)), sel(c.alloc(st), ref))
	case "V_samebase":
		// the two slices share their backing array
		a, b := c.eval(x.Args[0], st), c.eval(x.Args[1], st)
		return eq("(sbase "+a+")", "(sbase "+b+")")
	case "V_sameslice":
		a, b := c.eval(x.Args[0], st), c.eval(x.Args[1], st)
		return and(eq("(sbase "+a+")", "(sbase "+b+")"), eq("(soff "+a+")", "(soff "+b+")"), eq("(slen "+a+")", "(slen "+b+")"))
	case "V_itoa", "V_atoi", "V_parseIntOk", "V_parseUintOk", "V_isDecimal", "V_isDecInt", "V_parseFloat":
		// conversion laws of reflectmodel.go
		c.useReflect()
		fn := map[string]string{"V_itoa": "itoa", "V_atoi": "atoi", "V_parseIntOk": "parseIntOk", "V_parseUintOk": "parseUintOk",
			"V_isDecimal": "isDecimalLexical", "V_isDecInt": "isDecInt", "V_parseFloat": "parseFloatVal"}[name]
		var as []string
		for _, a := range x.Args {
			as = append(as, c.eval(a, st))
		}
		return app(fn, as...)
	case "V_distinctbase":
		// two slices that do not share a backing array (a nil slice shares with nothing)
		a, b := c.eval(x.Args[0], st), c.eval(x.Args[1], st)
		return or(eq("(sbase "+a+")", "0"), eq("(sbase "+b+")", "0"), not(eq("(sbase "+a+")", "(sbase "+b+")")))
	case "V_comparable":
		// the dynamic type of an interface value supports == (nil always does)
		v := c.convertTo(c.eval(x.Args[0], st), c.typeOf(x.Args[0]), types.NewInterfaceType(nil, nil), st)
		return or(eq(v, "inil"), "(tcomparable (ityp "+v+"))")
	case "V_sameref":
		// identity of two references (maps cannot be compared with == in Go)
		return eq(c.eval(x.Args[0], st), c.eval(x.Args[1], st))
	case "V_nonNilPayload":
		// an interface value that is nil or holds a non-nil pointer (not a typed nil)
		v := c.eval(x.Args[0], st)
		v = c.convertTo(v, c.typeOf(x.Args[0]), types.NewInterfaceType(nil, nil), st)
		return or(eq(v, "inil"), not(eq("(iref "+v+")", "0")))
	case "V_fnv32":
		c.declareFun("fnv32", []string{sString}, sInt)
		return "(fnv32 " + c.eval(x.Args[0], st) + ")"
	case "V_runeCount":
		return "(runeCount " + c.eval(x.Args[0], st) + ")"
	case "V_runeAt":
		c.declareFun("runeAt", []string{sString, sInt}, sInt)
		return "(runeAt " + c.eval(x.Args[0], st) + " " + c.eval(x.Args[1], st) + ")"
	case "V_first", "V_second":
		vals := c.evalMulti(x.Args[0], st)
		if len(x.Args) == 2 {
			vals = []string{c.eval(x.Args[0], st), c.eval(x.Args[1], st)}
		}
		if len(vals) != 2 {
			c.fail(x.Pos(), "first/second need a two-valued argument")
		}
		if name == "V_first" {
			return vals[0]
		}
		return vals[1]
	case "V_sliceprefix":
		a, b := c.eval(x.Args[0], st), c.eval(x.Args[1], st)
		return and(eq("(sbase "+a+")", "(sbase "+b+")"), eq("(soff "+a+")", "(soff "+b+")"), "(<= (slen "+a+") (slen "+b+"))")
	case "V_isnil":
		return c.isNil(c.eval(x.Args[0], st), c.typeOf(x.Args[0]))
	case "V_dyn":
		return "(ityp " + c.eval(x.Args[0], st) + ")"
	case "V_typeis":
		inst := c.info().Instances[x.Fun.(*ast.IndexExpr).X.(*ast.Ident)]
		T := inst.TypeArgs.At(0)
		v := c.eval(x.Args[0], st)
		v = c.convertTo(v, c.typeOf(x.Args[0]), types.NewInterfaceType(nil, nil), st)
		return c.dynTypeIs(v, T)
	case "V_payloadInt":
		return "(iint " + c.eval(x.Args[0], st) + ")"
	case "V_payloadStr":
		return "(istr " + c.eval(x.Args[0], st) + ")"
	case "V_payloadF64":
		return "(ifp " + c.eval(x.Args[0], st) + ")"
	case "V_payloadBool":
		return "(ibool " + c.eval(x.Args[0], st) + ")"
	case "V_payloadRef":
		return "(iref " + c.eval(x.Args[0], st) + ")"
	case "V_boxof":
		return c.box(c.eval(x.Args[0], st), c.typeOf(x.Args[0]), st)
	case "V_dom":
		mt := c.typeOf(x.Args[0]).Underlying().(*types.Map)
		dn, ds, _, _ := c.mapArrs(mt)
		return sel(c.h(st, dn, ds), c.eval(x.Args[0], st))
	case "V_seqlen":
		return "(qlen" + c.tt.sortOf(c.typeOf(x.Args[0])) + " " + c.eval(x.Args[0], st) + ")"
	case "V_seqat":
		return sel("(qel"+c.tt.sortOf(c.typeOf(x.Args[0]))+" "+c.eval(x.Args[0], st)+")", c.eval(x.Args[1], st))
	case "V_isIntegral":
		v := c.eval(x.Args[0], st)
		return and(not("(fp.isNaN "+v+")"), not("(fp.isInfinite "+v+")"), "(is_int (fp.to_real "+v+"))")
	case "V_isFinite":
		v := c.eval(x.Args[0], st)
		return and(not("(fp.isNaN "+v+")"), not("(fp.isInfinite "+v+")"))
	case "V_isNaN":
		return "(fp.isNaN " + c.eval(x.Args[0], st) + ")"
	case "V_toReal":
		return "(fp.to_real " + c.eval(x.Args[0], st) + ")"
	case "V_realOfInt":
		return "(to_real " + c.eval(x.Args[0], st) + ")"
	case "V_rlt":
		return "(< " + c.eval(x.Args[0], st) + " " + c.eval(x.Args[1], st) + ")"
	case "V_rle":
		return "(<= " + c.eval(x.Args[0], st) + " " + c.eval(x.Args[1], st) + ")"
	case "V_req":
		return "(= " + c.eval(x.Args[0], st) + " " + c.eval(x.Args[1], st) + ")"
	case "V_hasPrefix":
		return "(str.prefixof " + c.eval(x.Args[1], st) + " " + c.eval(x.Args[0], st) + ")"
	case "V_contains":
		return "(str.contains " + c.eval(x.Args[0], st) + " " + c.eval(x.Args[1], st) + ")"
	case "V_after":
		// the part of s after the first occurrence of sep (s itself when sep does not occur)
		s, sep := c.eval(x.Args[0], st), c.eval(x.Args[1], st)
		return ite("(< (str.indexof "+s+" "+sep+" 0) 0)", s, "(str.substr "+s+" (+ (str.indexof "+s+" "+sep+" 0) (str.len "+sep+")) (str.len "+s+"))")
	case "V_hasSuffix":
		return "(str.suffixof " + c.eval(x.Args[1], st) + " " + c.eval(x.Args[0], st) + ")"
	case "V_kindof":
		c.useReflect()
		v := c.convertTo(c.eval(x.Args[0], st), c.typeOf(x.Args[0]), types.NewInterfaceType(nil, nil), st)
		return ite(eq(v, "inil"), "0", "(kindOfTid (ityp "+v+"))")
	}
	c.fail(x.Pos(), "unsupported spec builtin %s", name)
	return ""
}

var _ = token.ADD
