package main

// Mini-model of package reflect and of the strconv / fmt conversions the scalar kernels use
// (KeyValueAsString, StringToType, writeIETFScalarJSON, enum lookups).
//
//   - a reflect.Value is the interface value it was made from (sort Iface; the zero Value is inil);
//   - a reflect.Type is a box of the pseudo dynamic type "reflect!rtype" whose integer payload is the type id;
//   - Kind / Size / Elem / Implements are functions of the type id: kindOfTid has one axiom per type id the
//     run knows (predeclared types, named types inherit the kind of their underlying type), sizeOfTid follows
//     the kind, elemOfTid is known for registered pointer and slice types, implements is uninterpreted on
//     unknown ids (so a proof cannot assume the set of dynamic types is closed);
//   - Int / Uint / Float / String / Bool / Bytes read the payload slot of the box;
//   - Convert(t) between integer kinds re-boxes the payload with t's id (the callers convert values that
//     strconv has already range-checked; out-of-range payloads are left unconstrained).
//
// Everything else in reflect stays a pure uninterpreted function or an opaque call as before.
//
// strconv / fmt laws (trusted, listed in the evidence as assumed library contracts):
//   itoa : Int -> String is injective (atoi(itoa(x)) = x) and produces RFC 7950 integer lexical forms;
//   ParseInt(itoa(x), 10, b) succeeds with x exactly when x fits b bits (two's complement), ParseUint likewise;
//   Sprintf("%d", v) = itoa(payload) for integer kinds, "%s" the string payload, "%t" "true"/"false";
//   FormatFloat(f, 'f', -1, 64) is a decimal without exponent that parses back to f; "%v"/"%g" on float64 only
//   parse back (they may use an exponent).

import (
	"fmt"
	"go/ast"
	"go/constant"
	"go/types"
	"strings"
)

const reflectPrelude = `(declare-fun kindOfTid (Int) Int)
(declare-fun sizeOfTid (Int) Int)
(declare-fun elemOfTid (Int) Int)
(declare-fun implements (Int Int) Bool)
(declare-fun vlen (Iface) Int)
(declare-fun vindex (Iface Int) Iface)
(assert (forall ((v Iface)) (! (>= (vlen v) 0) :pattern ((vlen v)))))
(declare-fun vnumfield (Iface) Int)
(assert (forall ((v Iface)) (! (>= (vnumfield v) 0) :pattern ((vnumfield v)))))
(declare-fun itoa (Int) String)
(declare-fun atoi (String) Int)
(declare-fun isDecInt (String) Bool)
(assert (forall ((x Int)) (! (and (= (atoi (itoa x)) x) (isDecInt (itoa x)) (not (= (itoa x) ""))) :pattern ((itoa x)))))
(declare-fun parseIntOk (String Int) Bool)
(declare-fun parseUintOk (String Int) Bool)
(declare-fun pow2i (Int) Int)
(assert (and (= (pow2i 7) 128) (= (pow2i 8) 256) (= (pow2i 15) 32768) (= (pow2i 16) 65536) (= (pow2i 31) 2147483648) (= (pow2i 32) 4294967296) (= (pow2i 63) 9223372036854775808) (= (pow2i 64) 18446744073709551616)))
(assert (forall ((x Int) (b Int)) (! (= (parseIntOk (itoa x) b) (and (<= (- (pow2i (- b 1))) x) (< x (pow2i (- b 1))))) :pattern ((parseIntOk (itoa x) b)))))
(assert (forall ((x Int) (b Int)) (! (= (parseUintOk (itoa x) b) (and (<= 0 x) (< x (pow2i b)))) :pattern ((parseUintOk (itoa x) b)))))
(declare-fun fmtFloatF (F64) String)
(declare-fun fmtFloatG (F64) String)
(declare-fun parseFloatVal (String) F64)
(declare-fun isDecimalLexical (String) Bool)
(assert (forall ((f F64)) (! (=> (and (not (fp.isNaN f)) (not (fp.isInfinite f))) (and (isDecimalLexical (fmtFloatF f)) (= (parseFloatVal (fmtFloatF f)) f))) :pattern ((fmtFloatF f)))))
(assert (forall ((f F64)) (! (=> (and (not (fp.isNaN f)) (not (fp.isInfinite f))) (= (parseFloatVal (fmtFloatG f)) f)) :pattern ((fmtFloatG f)))))
(assert (forall ((x Int)) (! (isDecimalLexical (itoa x)) :pattern ((itoa x)))))
(assert (forall ((t Int)) (! (and (=> (or (= (kindOfTid t) 1) (= (kindOfTid t) 3) (= (kindOfTid t) 8)) (= (sizeOfTid t) 1)) (=> (or (= (kindOfTid t) 4) (= (kindOfTid t) 9)) (= (sizeOfTid t) 2)) (=> (or (= (kindOfTid t) 5) (= (kindOfTid t) 10) (= (kindOfTid t) 13)) (= (sizeOfTid t) 4)) (=> (or (= (kindOfTid t) 2) (= (kindOfTid t) 6) (= (kindOfTid t) 7) (= (kindOfTid t) 11) (= (kindOfTid t) 12) (= (kindOfTid t) 14)) (= (sizeOfTid t) 8))) :pattern ((sizeOfTid t)))))
`

// reflect.Kind values
const (
	kInvalid = 0
	kBool    = 1
	kInt     = 2
	kInt8    = 3
	kInt16   = 4
	kInt32   = 5
	kInt64   = 6
	kUint    = 7
	kUint8   = 8
	kUint16  = 9
	kUint32  = 10
	kUint64  = 11
	kUintptr = 12
	kFloat32 = 13
	kFloat64 = 14
	kArray   = 17
	kChan    = 18
	kFunc    = 19
	kIface   = 20
	kMap     = 21
	kPtr     = 22
	kSlice   = 23
	kString  = 24
	kStruct  = 25
)

func kindOfType(t types.Type) int {
	switch u := t.Underlying().(type) {
	case *types.Basic:
		switch u.Kind() {
		case types.Bool:
			return kBool
		case types.Int:
			return kInt
		case types.Int8:
			return kInt8
		case types.Int16:
			return kInt16
		case types.Int32:
			return kInt32
		case types.Int64:
			return kInt64
		case types.Uint:
			return kUint
		case types.Uint8:
			return kUint8
		case types.Uint16:
			return kUint16
		case types.Uint32:
			return kUint32
		case types.Uint64:
			return kUint64
		case types.Uintptr:
			return kUintptr
		case types.Float32:
			return kFloat32
		case types.Float64:
			return kFloat64
		case types.String:
			return kString
		}
	case *types.Array:
		return kArray
	case *types.Chan:
		return kChan
	case *types.Signature:
		return kFunc
	case *types.Interface:
		return kIface
	case *types.Map:
		return kMap
	case *types.Pointer:
		return kPtr
	case *types.Slice:
		return kSlice
	case *types.Struct:
		return kStruct
	}
	return -1
}

// reflectTidAxioms: kind (and element type) of every type id known to the run.
func (tt *TypeTable) reflectTidAxioms() []string {
	var out []string
	n := len(tt.tidOrder)
	for i := 0; i < n; i++ { // registering element types below may extend tidOrder; those are handled on the next file
		k := tt.tidOrder[i]
		t := tt.tidTypes[k]
		if t == nil {
			continue
		}
		if kd := kindOfType(t); kd >= 0 {
			out = append(out, fmt.Sprintf("(assert (= (kindOfTid %d) %d))", tt.tids[k], kd))
		}
		switch u := t.Underlying().(type) {
		case *types.Pointer:
			out = append(out, fmt.Sprintf("(assert (= (elemOfTid %d) %s))", tt.tids[k], tt.tid(u.Elem())))
		case *types.Slice:
			out = append(out, fmt.Sprintf("(assert (= (elemOfTid %d) %s))", tt.tids[k], tt.tid(u.Elem())))
		}
	}
	return out
}

func isReflectValue(t types.Type) bool {
	n, ok := types.Unalias(t).(*types.Named)
	return ok && n.Obj().Pkg() != nil && n.Obj().Pkg().Path() == "reflect" && n.Obj().Name() == "Value"
}

func (c *FnCtx) rtypeBox(tid string) string {
	return "(ibox " + c.tt.tidName("reflect!rtype") + " " + tid + " \"\" false fpzero 0 nilSlice)"
}

func (c *FnCtx) useReflect() { c.usesReflect = true }

func init() {
	one := func(f func(c *FnCtx, a []string, st *State) string) libModel {
		return func(c *FnCtx, x *ast.CallExpr, fobj *types.Func, a []string, st *State) []string {
			c.useReflect()
			if rv := fobj.Type().(*types.Signature).Recv(); rv != nil && isIface(rv.Type()) && len(a) > 0 {
				// method of reflect.Type called on a nil interface value panics
				c.safety(st, "nilderef", "reflect.Type."+fobj.Name(), not(eq(a[0], "inil")), x.Pos())
			}
			if rv := fobj.Type().(*types.Signature).Recv(); rv != nil && isReflectValue(rv.Type()) && len(a) > 0 {
				// kind preconditions of the reflect.Value accessors (violations panic)
				if pre := reflectValuePre(fobj.Name(), a); pre != "" {
					c.safety(st, "reflectpanic", "reflect.Value."+fobj.Name(), pre, x.Pos())
				}
			}
			r := f(c, a, st)
			if c.specMode == 0 {
				// the result is a value of its Go type (integer range, well-formed interface value)
				rt := fobj.Type().(*types.Signature).Results().At(0).Type()
				if _, isBasic := rt.Underlying().(*types.Basic); isBasic {
					r = c.name(st, fobj.Name(), r, c.tt.sortOf(rt))
					if inv := c.typeInv(st, r, rt, 0); inv != "true" {
						st.addFact(inv)
					}
				}
			}
			return []string{r}
		}
	}
	kindOfVal := func(v string) string { return ite(eq(v, "inil"), "0", "(kindOfTid (ityp "+v+"))") }
	libModels["reflect.ValueOf"] = one(func(c *FnCtx, a []string, st *State) string { return a[0] })
	libModels["reflect.TypeOf"] = one(func(c *FnCtx, a []string, st *State) string {
		return ite(eq(a[0], "inil"), "inil", c.rtypeBox("(ityp "+a[0]+")"))
	})
	libModels["reflect.(Value).Kind"] = one(func(c *FnCtx, a []string, st *State) string { return kindOfVal(a[0]) })
	libModels["reflect.(Value).Type"] = one(func(c *FnCtx, a []string, st *State) string { return c.rtypeBox("(ityp " + a[0] + ")") })
	libModels["reflect.(Value).Interface"] = one(func(c *FnCtx, a []string, st *State) string { return a[0] })
	libModels["reflect.(Value).IsValid"] = one(func(c *FnCtx, a []string, st *State) string { return not(eq(a[0], "inil")) })
	libModels["reflect.(Value).Int"] = one(func(c *FnCtx, a []string, st *State) string { return "(iint " + a[0] + ")" })
	libModels["reflect.(Value).Uint"] = one(func(c *FnCtx, a []string, st *State) string { return "(iint " + a[0] + ")" })
	libModels["reflect.(Value).Float"] = one(func(c *FnCtx, a []string, st *State) string { return "(ifp " + a[0] + ")" })
	libModels["reflect.(Value).Bool"] = one(func(c *FnCtx, a []string, st *State) string { return "(ibool " + a[0] + ")" })
	libModels["reflect.(Value).Bytes"] = one(func(c *FnCtx, a []string, st *State) string { return "(isl " + a[0] + ")" })
	// Len / Index of a slice-, array- or map-kinded Value: uninterpreted functions of the Value with Len >= 0
	libModels["reflect.(Value).Len"] = one(func(c *FnCtx, a []string, st *State) string { return "(vlen " + a[0] + ")" })
	libModels["reflect.(Value).NumField"] = one(func(c *FnCtx, a []string, st *State) string { return "(vnumfield " + a[0] + ")" })
	libModels["reflect.(Value).Index"] =one(func(c *FnCtx, a []string, st *State) string { return "(vindex " + a[0] + " " + a[1] + ")" })
	// Elem of a non-nil pointer-kinded Value is a valid Value of the pointer's element type; otherwise (nil pointer,
	// interface kind) an uninterpreted Value that may be the zero Value. Panics for every other kind.
	libModels["reflect.(Value).Elem"] = func(c *FnCtx, x *ast.CallExpr, fobj *types.Func, a []string, st *State) []string {
		c.useReflect()
		k := kindOfVal(a[0])
		c.safety(st, "reflectpanic", "reflect.Value.Elem", or(eq(k, fmt.Sprint(kPtr)), eq(k, fmt.Sprint(kIface))), x.Pos())
		r := c.pureUF("velem", fobj, a, st, false)
		if c.specMode == 0 {
			st.addFact(implies(and(eq(k, fmt.Sprint(kPtr)), not(eq("(iref "+a[0]+")", "0"))),
				and("((_ is ibox) "+r[0]+")", eq("(ityp "+r[0]+")", "(elemOfTid (ityp "+a[0]+"))"))))
		}
		return r
	}
	// ygot.BuildEmptyTree(s) (reflection walker, assumed): allocates the nil container pointers of s and of the
	// containers below it, and touches nothing else: the struct-pointer fields of the struct types reachable from
	// the static type of the argument are havocked (a field that was non-nil keeps its value), everything else -
	// leaves, lists, maps - is unchanged.
	libModels["github.com/openconfig/ygot/ygot.BuildEmptyTree"] = func(c *FnCtx, x *ast.CallExpr, fobj *types.Func, a []string, st *State) []string {
		at := c.info().TypeOf(x.Args[0])
		oldAlloc := c.alloc(st)
		na := c.fresh("alloc", "(Array Int Bool)")
		st.heap["alloc"] = na
		c.monotoneAlloc(st, oldAlloc, na)
		st.addDef(not(sel(na, "0")))
		bases := c.subtreeBases(at)
		for _, b := range sortedKeys(bases) {
			ft := c.baseElem[b]
			pt, ok := ft.Underlying().(*types.Pointer)
			if !ok {
				continue
			}
			if _, isStruct := pt.Elem().Underlying().(*types.Struct); !isStruct {
				continue
			}
			old := c.h(st, b, bases[b])
			c.heapSort[b] = bases[b]
			n := c.fresh("hv_"+b, bases[b])
			st.heap[b] = n
			st.addDef("(forall ((r Int)) (! (=> (not (= (select " + old + " r) 0)) (= (select " + n + " r) (select " + old + " r))) :pattern ((select " + n + " r))))")
			if ax := c.closureAxiom(n, b, na); ax != "" {
				st.addDef(ax)
			}
		}
		c.abstractions["ygot.BuildEmptyTree (library model: only nil struct-pointer fields of the argument's subtree change)"] = true
		return nil
	}
	// CanSet / CanAddr / CanInterface: uninterpreted, but true only of a valid Value
	for _, m := range []string{"CanSet", "CanAddr", "CanInterface"} {
		m := m
		libModels["reflect.(Value)."+m] = func(c *FnCtx, x *ast.CallExpr, fobj *types.Func, a []string, st *State) []string {
			c.useReflect()
			r := c.pureUF("v"+m, fobj, a, st, false)
			if c.specMode == 0 {
				st.addFact(implies(r[0], not(eq(a[0], "inil"))))
			}
			return r
		}
	}
	libModels["reflect.(Value).Convert"] =func(c *FnCtx, x *ast.CallExpr, fobj *types.Func, a []string, st *State) []string {
		c.useReflect()
		r := c.fresh("conv", sIface)
		tid := "(iint " + a[1] + ")"
		intKind := func(k string) string { return and("(<= 2 "+k+")", "(<= "+k+" 12)") }
		st.addFact(and("((_ is ibox) "+r+")", eq("(ityp "+r+")", tid),
			implies(and(intKind("(kindOfTid "+tid+")"), intKind("(kindOfTid (ityp "+a[0]+"))")), eq("(iint "+r+")", "(iint "+a[0]+")")),
			implies(eq("(kindOfTid "+tid+")", "(kindOfTid (ityp "+a[0]+"))"), and(eq("(iint "+r+")", "(iint "+a[0]+")"), eq("(istr "+r+")", "(istr "+a[0]+")"),
				eq("(ibool "+r+")", "(ibool "+a[0]+")"), eq("(ifp "+r+")", "(ifp "+a[0]+")")))))
		return []string{r}
	}
	libModels["reflect.(Type).Kind"] = one(func(c *FnCtx, a []string, st *State) string { return "(kindOfTid (iint " + a[0] + "))" })
	libModels["reflect.(Type).Name"] = one(func(c *FnCtx, a []string, st *State) string {
		c.declareFun("nameOfTid", []string{"Int"}, sString)
		return "(nameOfTid (iint " + a[0] + "))"
	})
	libModels["reflect.(Type).Size"] = one(func(c *FnCtx, a []string, st *State) string { return "(sizeOfTid (iint " + a[0] + "))" })
	libModels["reflect.(Type).Elem"] = one(func(c *FnCtx, a []string, st *State) string { return c.rtypeBox("(elemOfTid (iint " + a[0] + "))") })
	libModels["reflect.(Type).Implements"] = one(func(c *FnCtx, a []string, st *State) string {
		return "(implements (iint " + a[0] + ") (iint " + a[1] + "))"
	})
	libModels["reflect.New"] = func(c *FnCtx, x *ast.CallExpr, fobj *types.Func, a []string, st *State) []string {
		// a function of the type (the callers use the result as a carrier of the type's method set or fill it
		// through reflection; the identity of the pointee is not modelled): a valid, non-nil pointer-kinded Value
		c.useReflect()
		r := c.pureUF("rnew", fobj, a, st, false)
		if c.specMode == 0 {
			st.addFact(and("((_ is ibox) "+r[0]+")", eq("(kindOfTid (ityp "+r[0]+"))", fmt.Sprint(kPtr)), eq("(elemOfTid (ityp "+r[0]+"))", "(iint "+a[0]+")"), "(> (iref "+r[0]+") 0)"))
		}
		c.abstractions["reflect.New (library model: a function of the type; pointee identity not modelled)"] = true
		return r
	}
	libModels["reflect.(Value).Call"] = func(c *FnCtx, x *ast.CallExpr, fobj *types.Func, a []string, st *State) []string {
		// a reflective call is a function of the method value and the arguments (the methods reached this way,
		// generated ΛMap / ΛListKeyMap style accessors, read no mutable state); nothing is known about the result
		c.useReflect()
		r := c.pureUF("rcall", fobj, a, st, false)
		if c.specMode == 0 {
			// every result of a call is a valid Value
			n, srt := c.elemsArr(fobj.Type().(*types.Signature).Results().At(0).Type().Underlying().(*types.Slice).Elem())
			row := sel(c.h(st, n, srt), "(sbase "+r[0]+")")
			st.addFact("(forall ((ri Int)) (! (=> (and (<= 0 ri) (< ri (slen " + r[0] + "))) (not (= " + sel(row, "(+ (soff "+r[0]+") ri)") + " inil))) :pattern (" + sel(row, "(+ (soff "+r[0]+") ri)") + ")))")
		}
		return r
	}
	// strings.Split with a constant non-empty separator: the result has 1 + (number of non-overlapping separators)
	// elements; the one- and two-element cases are described exactly.
	libModels["strings.Split"] = func(c *FnCtx, x *ast.CallExpr, fobj *types.Func, a []string, st *State) []string {
		r := c.pureUF("ssplit", fobj, a, st, false)
		tv, ok := c.info().Types[x.Args[1]]
		if !ok || tv.Value == nil || tv.Value.Kind() != constant.String || constant.StringVal(tv.Value) == "" || c.specMode != 0 {
			return r
		}
		s, sep := a[0], a[1]
		n, srt := c.elemsArr(types.Typ[types.String])
		el := func(i int) string {
			return sel(sel(c.h(st, n, srt), "(sbase "+r[0]+")"), fmt.Sprintf("(+ (soff %s) %d)", r[0], i))
		}
		i := "(str.indexof " + s + " " + sep + " 0)"
		rest := "(str.substr " + s + " (+ " + i + " (str.len " + sep + ")) (str.len " + s + "))"
		ln := "(slen " + r[0] + ")"
		st.addFact(and("(>= "+ln+" 1)", eq(eq(ln, "1"), "(< "+i+" 0)"), implies(eq(ln, "1"), eq(el(0), s)),
			implies("(>= "+i+" 0)", eq(eq(ln, "2"), not("(str.contains "+rest+" "+sep+")"))),
			implies(eq(ln, "2"), and(eq(el(0), "(str.substr "+s+" 0 "+i+")"), eq(el(1), rest)))))
		c.abstractions["strings.Split (library model: element count 1 + separators; 1- and 2-element results exact)"] = true
		return r
	}
	// strconv
	libModels["strconv.ParseInt"] = parseIntModel("parseIntOk")
	libModels["strconv.ParseUint"] = parseIntModel("parseUintOk")
	libModels["strconv.FormatFloat"] = func(c *FnCtx, x *ast.CallExpr, fobj *types.Func, a []string, st *State) []string {
		c.useReflect()
		// the laws hold for shortest-representation formatting (precision -1) at bit size 64 only
		is := func(e ast.Expr, want int64) bool {
			tv, ok := c.info().Types[e]
			if !ok || tv.Value == nil {
				return false
			}
			n, ok2 := constant.Int64Val(constant.ToInt(tv.Value))
			return ok2 && n == want
		}
		if len(x.Args) == 4 && is(x.Args[2], -1) && is(x.Args[3], 64) {
			if is(x.Args[1], 'f') {
				return []string{"(fmtFloatF " + a[0] + ")"}
			}
			if is(x.Args[1], 'g') || is(x.Args[1], 'e') {
				return []string{"(fmtFloatG " + a[0] + ")"}
			}
		}
		c.abstractions["pure-uf:strconv.FormatFloat"] = true
		return c.pureUF("lib!strconv.FormatFloat", fobj, a, st, false)
	}
}

// parseIntModel: ParseInt / ParseUint with base 10: the value is atoi(s) when the call succeeds, and the call
// succeeds on itoa(x) exactly when x fits the bit size (axioms in the prelude); on other strings success is
// unconstrained.
func parseIntModel(okFn string) libModel {
	return func(c *FnCtx, x *ast.CallExpr, fobj *types.Func, a []string, st *State) []string {
		c.useReflect()
		if tv, ok := c.info().Types[x.Args[1]]; !ok || tv.Value == nil || tv.Value.ExactString() != "10" {
			return c.pureUF("lib!strconv."+fobj.Name(), fobj, a, st, false)
		}
		okT := "(" + okFn + " " + a[0] + " " + a[2] + ")"
		errv := c.fresh("perr", sIface)
		st.addFact(eq(eq(errv, "inil"), okT))
		st.addFact(or(eq(errv, "inil"), and("((_ is ibox) "+errv+")", "(> (iref "+errv+") 0)")))
		n := c.fresh("pval", sInt)
		st.addFact(implies(okT, eq(n, "(atoi "+a[0]+")")))
		st.addFact(c.typeInv(st, n, fobj.Type().(*types.Signature).Results().At(0).Type(), 0))
		return []string{n, errv}
	}
}

// sprintfScalar handles Sprintf with a single verb applied to one argument of interface or basic type:
// %d -> itoa(payload), %s -> string payload, %t -> "true"/"false", %v/%g on float64 -> fmtFloatG.
// ok=false: not of that shape.
func sprintfScalar(c *FnCtx, x *ast.CallExpr, args []string, st *State) (string, bool) {
	tv, ok := c.info().Types[x.Args[0]]
	if !ok || tv.Value == nil || tv.Value.Kind() != constant.String || x.Ellipsis.IsValid() {
		return "", false
	}
	format := constant.StringVal(tv.Value)
	if s, ok := sprintfAllStrings(c, x, format, args); ok {
		return s, true
	}
	if len(x.Args) != 2 || len(format) != 2 || format[0] != '%' {
		return "", false
	}
	at := c.info().TypeOf(x.Args[1])
	v := args[1] // boxed operand
	c.useReflect()
	isFloat := func() string { return eq("(kindOfTid (ityp "+v+"))", fmt.Sprint(kFloat64)) }
	switch format[1] {
	case 'd':
		return "(itoa (iint " + v + "))", true
	case 's':
		if b, ok := at.Underlying().(*types.Basic); ok && b.Info()&types.IsString == 0 {
			return "", false
		}
		return "(istr " + v + ")", true
	case 't':
		return ite("(ibool "+v+")", `"true"`, `"false"`), true
	case 'g':
		return "(fmtFloatG (ifp " + v + "))", true
	case 'v':
		// %v: decimal for integer kinds, %g for floats, the string itself for strings
		k := "(kindOfTid (ityp " + v + "))"
		c.declareFun("fmtV", []string{sIface}, sString)
		return ite(and("(<= 2 "+k+")", "(<= "+k+" 12)"), "(itoa (iint "+v+"))", ite(isFloat(), "(fmtFloatG (ifp "+v+"))", ite(eq(k, fmt.Sprint(kString)), "(istr "+v+")", "(fmtV "+v+")"))), true
	}
	return "", false
}

// sprintfAllStrings handles Sprintf whose format consists of literal text and %s verbs only, one per argument,
// every argument being of a string type without methods: the result is the concatenation.
func sprintfAllStrings(c *FnCtx, x *ast.CallExpr, format string, args []string) (string, bool) {
	var parts []string
	lit := ""
	n := 1
	for i := 0; i < len(format); i++ {
		if format[i] != '%' {
			lit += string(format[i])
			continue
		}
		if i+1 >= len(format) {
			return "", false
		}
		i++
		switch format[i] {
		case '%':
			lit += "%"
		case 's':
			if n >= len(x.Args) || n >= len(args) {
				return "", false
			}
			at := c.info().TypeOf(x.Args[n])
			b, ok := at.Underlying().(*types.Basic)
			if !ok || b.Info()&types.IsString == 0 {
				return "", false
			}
			if nm, ok := at.(*types.Named); ok && nm.NumMethods() > 0 {
				return "", false
			}
			if lit != "" {
				parts = append(parts, strLit(lit))
				lit = ""
			}
			parts = append(parts, "(istr "+args[n]+")")
			n++
		default:
			return "", false
		}
	}
	if n != len(x.Args) || n < 3 {
		return "", false // single-verb formats keep their dedicated model
	}
	if lit != "" {
		parts = append(parts, strLit(lit))
	}
	c.useReflect()
	return "(str.++ " + strings.Join(parts, " ") + ")", true
}

// reflectValuePre: the condition under which the reflect.Value accessor does not panic ("" = none modelled).
func reflectValuePre(method string, a []string) string {
	k := ite(eq(a[0], "inil"), "0", "(kindOfTid (ityp "+a[0]+"))")
	in := func(ks ...int) string {
		var ds []string
		for _, x := range ks {
			ds = append(ds, eq(k, fmt.Sprint(x)))
		}
		return or(ds...)
	}
	switch method {
	case "Type", "Interface":
		return not(eq(a[0], "inil"))
	case "Int":
		return and("(<= 2 "+k+")", "(<= "+k+" 6)")
	case "Uint":
		return and("(<= 7 "+k+")", "(<= "+k+" 12)")
	case "Float":
		return in(kFloat32, kFloat64)
	case "Bool":
		return in(kBool)
	case "NumField":
		return in(kStruct)
	case "Len":
		return in(kArray, kChan, kMap, kSlice, kString, kPtr) // Ptr: pointer to array
	case "Index":
		if len(a) > 1 {
			return and(in(kArray, kSlice, kString), "(<= 0 "+a[1]+")", "(< "+a[1]+" (vlen "+a[0]+"))")
		}
	}
	return ""
}
