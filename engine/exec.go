package main

import (
	"sort"
	"fmt"
	"go/ast"
	"go/token"
	"go/types"
	"strings"
)

func (c *FnCtx) info() *types.Info { return c.fr.pkg.Info }

func (c *FnCtx) typeOf(e ast.Expr) types.Type {
	t := c.info().TypeOf(e)
	if t == nil {
		c.fail(e.Pos(), "no type for expression")
	}
	return t
}

func (c *FnCtx) execBlock(stmts []ast.Stmt, st *State) Outs {
	out := Outs{}
	cur := st
	for _, s := range stmts {
		if cur == nil {
			break
		}
		o := c.exec(s, cur)
		c.addEscapes(&out, o)
		cur = o.normal
	}
	out.normal = cur
	return out
}

func (c *FnCtx) exec(s ast.Stmt, st *State) Outs {
	switch x := s.(type) {
	case *ast.BlockStmt:
		return c.execBlock(x.List, st)
	case *ast.EmptyStmt:
		return Outs{normal: st}
	case *ast.ExprStmt:
		c.evalMulti(x.X, st)
		return Outs{normal: st}
	case *ast.DeclStmt:
		gd, ok := x.Decl.(*ast.GenDecl)
		if !ok || gd.Tok == token.TYPE || gd.Tok == token.CONST {
			return Outs{normal: st}
		}
		for _, sp := range gd.Specs {
			vs := sp.(*ast.ValueSpec)
			if len(vs.Values) == 0 {
				for _, nm := range vs.Names {
					obj := c.info().Defs[nm]
					if obj != nil {
						c.declareLocal(st, obj, c.zero(obj.Type()))
					}
				}
				continue
			}
			var vals []string
			if len(vs.Values) == 1 && len(vs.Names) > 1 {
				vals = c.evalMulti(vs.Values[0], st)
			} else {
				for i, v := range vs.Values {
					vals = append(vals, c.convertTo(c.eval(v, st), c.typeOf(v), c.info().Defs[vs.Names[i]].Type(), st))
				}
			}
			for i, nm := range vs.Names {
				if obj := c.info().Defs[nm]; obj != nil {
					c.declareLocal(st, obj, vals[i])
				}
			}
		}
		return Outs{normal: st}
	case *ast.AssignStmt:
		c.execAssign(x, st)
		return Outs{normal: st}
	case *ast.IncDecStmt:
		t := c.typeOf(x.X)
		v := c.eval(x.X, st)
		op := "+"
		if x.Tok == token.DEC {
			op = "-"
		}
		nv := "(" + op + " " + v + " 1)"
		if b, ok := t.Underlying().(*types.Basic); ok {
			nv = c.wrapInt(nv, b)
		}
		c.assignTo(x.X, nv, st)
		return Outs{normal: st}
	case *ast.IfStmt:
		return c.execIf(x, st)
	case *ast.SwitchStmt:
		return c.execSwitch(x, st)
	case *ast.TypeSwitchStmt:
		return c.execTypeSwitch(x, st)
	case *ast.ForStmt:
		return c.execFor(x, st, "")
	case *ast.RangeStmt:
		return c.execRange(x, st, "")
	case *ast.LabeledStmt:
		switch l := x.Stmt.(type) {
		case *ast.ForStmt:
			return c.execFor(l, st, x.Label.Name)
		case *ast.RangeStmt:
			return c.execRange(l, st, x.Label.Name)
		}
		return c.exec(x.Stmt, st)
	case *ast.ReturnStmt:
		c.execReturn(x, st)
		return Outs{}
	case *ast.BranchStmt:
		lbl := ""
		if x.Label != nil {
			lbl = x.Label.Name
		}
		switch x.Tok {
		case token.BREAK:
			return Outs{brk: map[string]*State{lbl: st}}
		case token.CONTINUE:
			return Outs{cont: map[string]*State{lbl: st}}
		}
		c.fail(x.Pos(), "unsupported branch statement %s", x.Tok)
	case *ast.DeferStmt:
		if sel, ok := x.Call.Fun.(*ast.SelectorExpr); ok {
			switch sel.Sel.Name {
			case "Unlock", "RUnlock", "Done":
				return Outs{normal: st}
			}
		}
		c.fail(x.Pos(), "unsupported defer")
	case *ast.GoStmt, *ast.SelectStmt, *ast.SendStmt:
		c.fail(s.Pos(), "concurrency statements are not supported")
	}
	c.fail(s.Pos(), "unsupported statement %T", s)
	return Outs{}
}

func (c *FnCtx) execAssign(x *ast.AssignStmt, st *State) {
	if x.Tok != token.ASSIGN && x.Tok != token.DEFINE {
		// op=
		t := c.typeOf(x.Lhs[0])
		l := c.eval(x.Lhs[0], st)
		r := c.eval(x.Rhs[0], st)
		var op token.Token
		switch x.Tok {
		case token.ADD_ASSIGN:
			op = token.ADD
		case token.SUB_ASSIGN:
			op = token.SUB
		case token.MUL_ASSIGN:
			op = token.MUL
		case token.QUO_ASSIGN:
			op = token.QUO
		case token.REM_ASSIGN:
			op = token.REM
		case token.AND_ASSIGN:
			op = token.AND
		case token.OR_ASSIGN:
			op = token.OR
		case token.SHL_ASSIGN:
			op = token.SHL
		case token.SHR_ASSIGN:
			op = token.SHR
		default:
			c.fail(x.Pos(), "unsupported assignment operator %s", x.Tok)
		}
		v := c.binop(op, l, r, t, c.typeOf(x.Rhs[0]), x.Rhs[0], st, x.Pos())
		c.assignTo(x.Lhs[0], v, st)
		return
	}
	var vals []string
	if len(x.Rhs) == 1 && len(x.Lhs) > 1 {
		vals = c.evalMulti(x.Rhs[0], st)
		if len(vals) != len(x.Lhs) {
			c.fail(x.Pos(), "multi-value assignment arity mismatch (%d vs %d)", len(vals), len(x.Lhs))
		}
	} else {
		for i, r := range x.Rhs {
			v := c.eval(r, st)
			// implicit conversion to the lhs type (e.g. concrete -> interface)
			var lt types.Type
			if id, ok := x.Lhs[i].(*ast.Ident); ok && id.Name == "_" {
				lt = nil
			} else if x.Tok == token.DEFINE {
				if id, ok := x.Lhs[i].(*ast.Ident); ok {
					if o := c.info().Defs[id]; o != nil {
						lt = o.Type()
					} else if o := c.info().Uses[id]; o != nil {
						lt = o.Type()
					}
				}
			} else {
				lt = c.typeOf(x.Lhs[i])
			}
			if lt != nil {
				v = c.convertTo(v, c.typeOf(r), lt, st)
			}
			vals = append(vals, v)
		}
	}
	for i, l := range x.Lhs {
		if id, ok := l.(*ast.Ident); ok {
			if id.Name == "_" {
				continue
			}
			if x.Tok == token.DEFINE {
				if obj := c.info().Defs[id]; obj != nil {
					c.declareLocal(st, obj, vals[i])
					continue
				}
			}
		}
		c.assignTo(l, vals[i], st)
	}
}

// assignTo stores v into the location denoted by l.
func (c *FnCtx) assignTo(l ast.Expr, v string, st *State) {
	switch x := l.(type) {
	case *ast.ParenExpr:
		c.assignTo(x.X, v, st)
	case *ast.Ident:
		if x.Name == "_" {
			return
		}
		obj := c.info().Uses[x]
		if obj == nil {
			obj = c.info().Defs[x]
		}
		c.assignVar(st, obj, v, x.Pos())
	case *ast.SelectorExpr:
		selInfo := c.info().Selections[x]
		if selInfo == nil {
			// package-qualified variable
			obj := c.info().Uses[x.Sel]
			c.assignVar(st, obj, v, x.Pos())
			return
		}
		c.storeField(x, selInfo, v, st)
	case *ast.IndexExpr:
		bt := c.typeOf(x.X)
		switch u := bt.Underlying().(type) {
		case *types.Map:
			m := c.eval(x.X, st)
			k := c.convertTo(c.eval(x.Index, st), c.typeOf(x.Index), u.Key(), st)
			c.safety(st, "nilmap", c.src(x.X), not(eq(m, "0")), x.Pos())
			c.frameCheck(st, "map", m, c.src(l), x.Pos())
			c.mapStore(st, u, m, k, v)
		case *types.Slice:
			s := c.eval(x.X, st)
			i := c.eval(x.Index, st)
			c.safety(st, "index", c.src(l), and("(<= 0 "+i+")", "(< "+i+" (slen "+s+"))"), x.Pos())
			c.frameCheck(st, "elems", "(sbase "+s+")", c.src(l), x.Pos())
			n, srt := c.elemsArr(u.Elem())
			E := c.h(st, n, srt)
			c.setH(st, n, srt, store(E, "(sbase "+s+")", store(sel(E, "(sbase "+s+")"), "(+ (soff "+s+") "+i+")", v)))
		case *types.Pointer: // pointer to array
			c.fail(x.Pos(), "store through pointer-to-array not supported")
		case *types.Array:
			arr := c.eval(x.X, st)
			i := c.eval(x.Index, st)
			c.safety(st, "index", c.src(l), and("(<= 0 "+i+")", fmt.Sprintf("(< %s %d)", i, u.Len())), x.Pos())
			c.assignTo(x.X, store(arr, i, v), st)
		default:
			c.fail(x.Pos(), "unsupported index assignment on %s", bt)
		}
	case *ast.StarExpr:
		p := c.eval(x.X, st)
		pt := c.typeOf(x.X).Underlying().(*types.Pointer)
		c.safety(st, "nilderef", c.src(l), not(eq(p, "0")), x.Pos())
		c.storeThrough(st, p, pt.Elem(), v, c.src(l), x.Pos())
	default:
		c.fail(l.Pos(), "unsupported assignment target %T", l)
	}
}

// storeThrough writes a whole value of type t at pointer p.
func (c *FnCtx) storeThrough(st *State, p string, t types.Type, v string, text string, pos token.Pos) {
	if s, ok := t.Underlying().(*types.Struct); ok {
		c.frameCheck(st, "struct", p, text, pos)
		for i := 0; i < s.NumFields(); i++ {
			f := s.Field(i)
			n, srt := c.fieldArr(t, f.Name())
			c.setH(st, n, srt, store(c.h(st, n, srt), p, "("+c.tt.fieldAcc(t, f.Name())+" "+v+")"))
		}
		return
	}
	c.frameCheck(st, "cell", p, text, pos)
	n, srt := c.cellArr(t)
	c.setH(st, n, srt, store(c.h(st, n, srt), p, v))
}

func (c *FnCtx) mapStore(st *State, u *types.Map, m, k, v string) {
	dn, ds, vn, vs := c.mapArrs(u)
	D, V := c.h(st, dn, ds), c.h(st, vn, vs)
	c.setH(st, dn, ds, store(D, m, store(sel(D, m), k, "true")))
	c.setH(st, vn, vs, store(V, m, store(sel(V, m), k, v)))
}

func (c *FnCtx) mapDelete(st *State, u *types.Map, m, k string) {
	dn, ds, _, _ := c.mapArrs(u)
	D := c.h(st, dn, ds)
	// delete on nil map is a no-op; MD[0] is const false and stays so
	c.setH(st, dn, ds, store(D, m, store(sel(D, m), k, "false")))
}

// storeField handles x.f = v where x is a pointer or an addressable struct.
func (c *FnCtx) storeField(x *ast.SelectorExpr, selInfo *types.Selection, v string, st *State) {
	bt := c.typeOf(x.X)
	if len(selInfo.Index()) != 1 {
		// promoted field of an embedded struct value: rebuild along the path
		if _, ok := bt.Underlying().(*types.Struct); !ok {
			c.fail(x.Pos(), "store through embedded field path of a pointer is not supported")
		}
		old := c.eval(x.X, st)
		c.assignTo(x.X, c.structUpdatePath(bt, old, selInfo.Index(), v, x.Pos()), st)
		return
	}
	if pt, ok := bt.Underlying().(*types.Pointer); ok {
		p := c.eval(x.X, st)
		c.safety(st, "nilderef", c.src(x), not(eq(p, "0")), x.Pos())
		c.frameCheckField(st, p, pt.Elem(), x.Sel.Name, c.src(x), x.Pos())
		n, srt := c.fieldArr(pt.Elem(), x.Sel.Name)
		c.setH(st, n, srt, store(c.h(st, n, srt), p, v))
		return
	}
	// struct value: rebuild and assign back
	if _, ok := bt.Underlying().(*types.Struct); ok {
		old := c.eval(x.X, st)
		c.assignTo(x.X, c.structUpdate(bt, old, x.Sel.Name, v), st)
		return
	}
	c.fail(x.Pos(), "unsupported field store on %s", bt)
}

func (c *FnCtx) structUpdatePath(t types.Type, old string, path []int, v string, pos token.Pos) string {
	s, ok := t.Underlying().(*types.Struct)
	if !ok {
		c.fail(pos, "embedded field path through non-struct value")
	}
	f := s.Field(path[0])
	if len(path) == 1 {
		return c.structUpdate(t, old, f.Name(), v)
	}
	c.tt.sortOf(t)
	inner := "(" + c.tt.fieldAcc(t, f.Name()) + " " + old + ")"
	return c.structUpdate(t, old, f.Name(), c.structUpdatePath(f.Type(), inner, path[1:], v, pos))
}

func (c *FnCtx) structUpdate(t types.Type, old, field, v string) string {
	s := t.Underlying().(*types.Struct)
	var fs []string
	for i := 0; i < s.NumFields(); i++ {
		f := s.Field(i)
		if f.Name() == field {
			fs = append(fs, v)
		} else {
			fs = append(fs, "("+c.tt.fieldAcc(t, f.Name())+" "+old+")")
		}
	}
	return "(mk!" + c.tt.sortOf(t) + " " + strings.Join(fs, " ") + ")"
}

func (c *FnCtx) src(n ast.Node) string {
	var b strings.Builder
	writeExpr(&b, n)
	return b.String()
}

// ---------- if / switch ----------

func (c *FnCtx) execIf(x *ast.IfStmt, st *State) Outs {
	if x.Init != nil {
		o := c.exec(x.Init, st)
		st = o.normal
	}
	cond := c.eval(x.Cond, st)
	cond = c.name(st, "c", cond, sBool)
	thenSt := st.clone()
	thenSt.addCond(cond)
	elseSt := st
	elseSt.addCond(not(cond))
	var o1, o2 Outs
	if cond != "false" {
		o1 = c.execBlock(x.Body.List, thenSt)
	}
	if cond != "true" {
		if x.Else != nil {
			o2 = c.exec(x.Else, elseSt)
		} else {
			o2 = Outs{normal: elseSt}
		}
	}
	return c.mergeOuts(o1, o2)
}

func (c *FnCtx) execSwitch(x *ast.SwitchStmt, st *State) Outs {
	if x.Init != nil {
		st = c.exec(x.Init, st).normal
	}
	var tag string
	var tagT types.Type
	if x.Tag != nil {
		tag = c.eval(x.Tag, st)
		tagT = c.typeOf(x.Tag)
		tag = c.name(st, "tag", tag, c.tt.sortOf(tagT))
	}
	var result Outs
	cur := st // state in which no previous case matched
	var dflt *ast.CaseClause
	for _, cs := range x.Body.List {
		cc := cs.(*ast.CaseClause)
		if cc.List == nil {
			dflt = cc
			continue
		}
		var conds []string
		// evaluate case expressions in order; later ones only if earlier are false (short-circuit)
		evalSt := cur
		for _, e := range cc.List {
			var cnd string
			if x.Tag != nil {
				v := c.eval(e, evalSt)
				cnd = c.equal(tag, c.convertTo(v, c.typeOf(e), tagT, evalSt), tagT, evalSt, e.Pos())
			} else {
				sub := evalSt.clone()
				var guards []string
				for _, p := range conds {
					sub.addCond(not(p))
					guards = append(guards, not(p))
				}
				nh := len(sub.hyps)
				cnd = c.eval(e, sub)
				// definitions and facts learnt while evaluating this case expression (callee postconditions, safety
				// assumptions) hold whenever it was evaluated, i.e. when no earlier expression of the clause matched
				g := and(guards...)
				for _, h := range sub.hyps[nh:] {
					switch h.kind {
					case 'd':
						evalSt.hyps = append(evalSt.hyps, h)
					case 'f', 'c':
						evalSt.hyps = append(evalSt.hyps, Hyp{implies(g, h.s), 'f'})
					}
				}
				for k, v := range sub.heap {
					if evalSt.heap[k] != v {
						old := c.h(evalSt, k, c.heapSort[k])
						c.setH(evalSt, k, c.heapSort[k], ite(g, v, old))
					}
				}
			}
			conds = append(conds, cnd)
		}
		match := c.name(cur, "case", or(conds...), sBool)
		bodySt := cur.clone()
		bodySt.addCond(match)
		cur.addCond(not(match))
		if hasFallthrough(cc) {
			c.fail(cc.Pos(), "fallthrough not supported")
		}
		o := c.execBlock(cc.Body, bodySt)
		o = c.switchBreaks(o)
		result = c.mergeOuts(result, o)
	}
	if dflt != nil {
		o := c.execBlock(dflt.Body, cur)
		o = c.switchBreaks(o)
		result = c.mergeOuts(result, o)
	} else {
		result = c.mergeOuts(result, Outs{normal: cur})
	}
	return result
}

// switchBreaks: an unlabeled break inside a switch leaves the switch.
func (c *FnCtx) switchBreaks(o Outs) Outs {
	if b, ok := o.brk[""]; ok {
		o.normal = c.merge(o.normal, b)
		nb := map[string]*State{}
		for k, v := range o.brk {
			if k != "" {
				nb[k] = v
			}
		}
		o.brk = nb
	}
	return o
}

func hasFallthrough(cc *ast.CaseClause) bool {
	if len(cc.Body) == 0 {
		return false
	}
	b, ok := cc.Body[len(cc.Body)-1].(*ast.BranchStmt)
	return ok && b.Tok == token.FALLTHROUGH
}

func (c *FnCtx) execTypeSwitch(x *ast.TypeSwitchStmt, st *State) Outs {
	if x.Init != nil {
		st = c.exec(x.Init, st).normal
	}
	var operand ast.Expr
	var bindName *ast.Ident
	switch a := x.Assign.(type) {
	case *ast.ExprStmt:
		operand = a.X.(*ast.TypeAssertExpr).X
	case *ast.AssignStmt:
		operand = a.Rhs[0].(*ast.TypeAssertExpr).X
		bindName = a.Lhs[0].(*ast.Ident)
	}
	v := c.eval(operand, st)
	vt := c.typeOf(operand)
	v = c.name(st, "tsw", v, c.tt.sortOf(vt))
	var result Outs
	cur := st
	var dflt *ast.CaseClause
	for _, cs := range x.Body.List {
		cc := cs.(*ast.CaseClause)
		if cc.List == nil {
			dflt = cc
			continue
		}
		var conds []string
		for _, te := range cc.List {
			if id, ok := te.(*ast.Ident); ok && id.Name == "nil" {
				conds = append(conds, eq(v, "inil"))
				continue
			}
			T := c.typeOf(te)
			conds = append(conds, c.dynTypeIs(v, T))
		}
		match := c.name(cur, "tcase", or(conds...), sBool)
		bodySt := cur.clone()
		bodySt.addCond(match)
		cur.addCond(not(match))
		if bindName != nil {
			if obj := c.info().Implicits[cc]; obj != nil {
				var term string
				if len(cc.List) == 1 {
					if id, ok := cc.List[0].(*ast.Ident); ok && id.Name == "nil" {
						term = v
					} else {
						term = c.unbox(v, c.typeOf(cc.List[0]), bodySt)
					}
				} else {
					term = v
				}
				c.declareLocal(bodySt, obj, term)
			}
		}
		o := c.switchBreaks(c.execBlock(cc.Body, bodySt))
		result = c.mergeOuts(result, o)
	}
	if dflt != nil {
		if bindName != nil {
			if obj := c.info().Implicits[dflt]; obj != nil {
				c.declareLocal(cur, obj, v)
			}
		}
		o := c.switchBreaks(c.execBlock(dflt.Body, cur))
		result = c.mergeOuts(result, o)
	} else {
		result = c.mergeOuts(result, Outs{normal: cur})
	}
	return result
}

// ---------- return ----------

func (c *FnCtx) execReturn(x *ast.ReturnStmt, st *State) {
	fr := c.fr
	var vals []string
	nres := fr.sig.Results().Len()
	if len(x.Results) == 0 && nres > 0 {
		for _, rv := range fr.results {
			vals = append(vals, c.readVar(st, rv, x.Pos()))
		}
	} else if len(x.Results) == 1 && nres > 1 {
		vals = c.evalMulti(x.Results[0], st)
	} else {
		for i, r := range x.Results {
			v := c.eval(r, st)
			vals = append(vals, c.convertTo(v, c.typeOf(r), fr.sig.Results().At(i).Type(), st))
		}
	}
	c.retSite = c.src(x)
	if fr.isTop && fr.fd != nil && c.isDuplicatedLastReturn(fr.fd, x) {
		// the final return statement of the function, when its text also occurs earlier, gets a name of its own
		// (contracts can then declare it unreachable without depending on path numbering)
		c.retSite += " (last)"
	}
	c.finishReturn(st, vals, x.Pos())
}

// isDuplicatedLastReturn: x is the last statement of the function body and another return with the same text exists.
func (c *FnCtx) isDuplicatedLastReturn(fd *ast.FuncDecl, x *ast.ReturnStmt) bool {
	if fd.Body == nil || len(fd.Body.List) == 0 || fd.Body.List[len(fd.Body.List)-1] != ast.Stmt(x) {
		return false
	}
	text := c.src(x)
	dup := false
	ast.Inspect(fd.Body, func(n ast.Node) bool {
		if _, isLit := n.(*ast.FuncLit); isLit {
			return false
		}
		if r, ok := n.(*ast.ReturnStmt); ok && r != x && c.src(r) == text {
			dup = true
		}
		return true
	})
	return dup
}

func (c *FnCtx) finishReturn(st *State, vals []string, pos token.Pos) {
	fr := c.fr
	if fr.rets != nil {
		*fr.rets = append(*fr.rets, retRec{st, vals})
		return
	}
	c.npaths++
	if c.con != nil {
		// ghost history effects of the contract (`records g += expr`)
		for _, r := range c.con.Records {
			base := ghostBase(c.pkg, r.Fld)
			srt := c.ghostSort(c.pkg, r.Fld)
			args := map[string]string{}
			for _, n := range r.Params {
				args[n] = c.paramTerms[n]
			}
			obj := c.evalSynth(r.GoFn, c.pkg, args, c.entry, true)
			c.heapSort[base] = srt
			c.setH(st, base, srt, store(c.h(st, base, srt), obj, "true"))
		}
	}
	c.checkPost(st, vals, pos)
}

// ---------- loops ----------

type loopInfo struct {
	assignedVars map[types.Object]bool
	heapAll      bool
	heapBases    map[string]bool
}

// scanWrites computes the variables assigned and heap arrays written by a statement list.
func (c *FnCtx) scanWrites(nodes []ast.Node) *loopInfo {
	li := &loopInfo{assignedVars: map[types.Object]bool{}, heapBases: map[string]bool{}}
	info := c.info()
	var markLhs func(e ast.Expr)
	markLhs = func(e ast.Expr) {
		switch x := e.(type) {
		case *ast.ParenExpr:
			markLhs(x.X)
		case *ast.Ident:
			if o := info.Uses[x]; o != nil {
				li.assignedVars[o] = true
				if v, ok := o.(*types.Var); ok && c.addrTaken(v) {
					if isStructType(v.Type()) {
						s := v.Type().Underlying().(*types.Struct)
						for i := 0; i < s.NumFields(); i++ {
							n, _ := c.fieldArr(v.Type(), s.Field(i).Name())
							li.heapBases[n] = true
						}
					} else {
						n, _ := c.cellArr(v.Type())
						li.heapBases[n] = true
					}
				}
				if v, ok := o.(*types.Var); ok && v.Pkg() != nil && v.Parent() == v.Pkg().Scope() {
					li.heapBases["G!"+v.Pkg().Name()+"."+v.Name()] = true
				}
			}
			if o := info.Defs[x]; o != nil {
				li.assignedVars[o] = true
			}
		case *ast.SelectorExpr:
			if s := info.Selections[x]; s != nil {
				bt := info.TypeOf(x.X)
				if pt, ok := bt.Underlying().(*types.Pointer); ok {
					n, _ := c.fieldArr(pt.Elem(), x.Sel.Name)
					li.heapBases[n] = true
				} else {
					markLhs(x.X)
				}
			} else if o := info.Uses[x.Sel]; o != nil {
				li.heapBases["G!"+o.Pkg().Name()+"."+o.Name()] = true
			}
		case *ast.IndexExpr:
			bt := info.TypeOf(x.X)
			switch u := bt.Underlying().(type) {
			case *types.Map:
				dn, _, vn, _ := c.mapArrs(u)
				li.heapBases[dn] = true
				li.heapBases[vn] = true
			case *types.Slice:
				n, _ := c.elemsArr(u.Elem())
				li.heapBases[n] = true
			case *types.Array:
				markLhs(x.X)
			}
		case *ast.StarExpr:
			pt := info.TypeOf(x.X).Underlying().(*types.Pointer)
			if s, ok := pt.Elem().Underlying().(*types.Struct); ok {
				for i := 0; i < s.NumFields(); i++ {
					n, _ := c.fieldArr(pt.Elem(), s.Field(i).Name())
					li.heapBases[n] = true
				}
			} else {
				n, _ := c.cellArr(pt.Elem())
				li.heapBases[n] = true
			}
		}
	}
	var visit func(n ast.Node) bool
	visit = func(n ast.Node) bool {
		switch x := n.(type) {
		case *ast.AssignStmt:
			for _, l := range x.Lhs {
				markLhs(l)
			}
		case *ast.IncDecStmt:
			markLhs(x.X)
		case *ast.RangeStmt:
			if x.Key != nil {
				markLhs(x.Key)
			}
			if x.Value != nil {
				markLhs(x.Value)
			}
		case *ast.UnaryExpr:
			if x.Op == token.AND {
				// &T{...} allocates
				li.heapBases["alloc"] = true
				if cl, ok := x.X.(*ast.CompositeLit); ok {
					t := info.TypeOf(cl)
					if s, ok := t.Underlying().(*types.Struct); ok {
						for i := 0; i < s.NumFields(); i++ {
							nm, _ := c.fieldArr(t, s.Field(i).Name())
							li.heapBases[nm] = true
						}
					}
				}
			}
		case *ast.CompositeLit:
			t := info.TypeOf(x)
			switch u := t.Underlying().(type) {
			case *types.Slice:
				li.heapBases["alloc"] = true
				nm, _ := c.elemsArr(u.Elem())
				li.heapBases[nm] = true
			case *types.Map:
				li.heapBases["alloc"] = true
				dn, _, vn, _ := c.mapArrs(u)
				li.heapBases[dn] = true
				li.heapBases[vn] = true
			}
		case *ast.CallExpr:
			c.scanCallWrites(x, li)
		}
		return true
	}
	for _, n := range nodes {
		if n != nil {
			ast.Inspect(n, visit)
		}
	}
	return li
}

// havoc replaces the loop-modified parts of the state by fresh values.
func (c *FnCtx) havoc(st *State, li *loopInfo) {
	// (deterministic order: the names of the havocked values, and with them the SMT text, must not depend on map
	// iteration order)
	var assigned []types.Object
	for obj := range li.assignedVars {
		assigned = append(assigned, obj)
	}
	sort.Slice(assigned, func(i, j int) bool {
		if assigned[i].Pos() != assigned[j].Pos() {
			return assigned[i].Pos() < assigned[j].Pos()
		}
		return assigned[i].Name() < assigned[j].Name()
	})
	for _, obj := range assigned {
		b, ok := st.vars[obj]
		if !ok {
			continue
		}
		if b.cell {
			continue // contents live in the heap; handled through heapBases
		}
		n := c.fresh(obj.Name(), c.tt.sortOf(b.typ))
		st.vars[obj] = &binding{term: n, typ: b.typ}
	}
	if li.heapAll {
		c.havocAll(st)
	} else {
		oldAlloc := ""
		if li.heapBases["alloc"] {
			oldAlloc = c.alloc(st)
		}
		for _, base := range sortedKeysB(li.heapBases) {
			srt, ok := c.heapSort[base]
			if !ok {
				// not yet touched: materialise so that later reads see the havocked version
				srt = c.sortOfBase(base)
				if srt == "" {
					continue
				}
			}
			n := c.fresh("hv_"+base, srt)
			c.heapSort[base] = srt
			st.heap[base] = n
			c.heapAxioms(st, base, n)
		}
		for _, base := range sortedKeysB(li.heapBases) {
			if base == "alloc" {
				continue
			}
			if n, ok := st.heap[base]; ok {
				if ax := c.closureAxiom(n, base, c.alloc(st)); ax != "" {
					st.addDef(ax)
				}
				if fi := c.frameInvariant(base, n); fi != "" {
					st.addDef(fi)
				}
			}
		}
		if oldAlloc != "" {
			c.monotoneAlloc(st, oldAlloc, c.alloc(st))
		}
	}
	for obj := range li.assignedVars {
		if b, ok := st.vars[obj]; ok && !b.cell {
			st.addFact(c.typeInv(st, b.term, b.typ, 0))
		}
	}
}

func (c *FnCtx) sortOfBase(base string) string {
	if s, ok := c.eng.baseSorts[base]; ok {
		return s
	}
	return ""
}

func (c *FnCtx) heapAxioms(st *State, base, term string) {
	if strings.HasPrefix(base, "MD!") {
		srt := c.heapSort[base]
		// (Array Int (Array K Bool)) -> inner sort
		inner := strings.TrimSuffix(strings.TrimPrefix(srt, "(Array Int "), ")")
		st.addDef(eq(sel(term, "0"), "((as const "+inner+") false)"))
	}
	if base == "alloc" {
		st.addDef(not(sel(term, "0")))
	}
	if srt := c.heapSort[base]; strings.HasPrefix(srt, "Seq!") {
		st.addDef("(>= (qlen" + srt + " " + term + ") 0)") // ghost sequences have non-negative length
	}
}

func (c *FnCtx) havocAll(st *State) {
	oldAlloc := c.alloc(st)
	c.nfresh++
	st.epoch = c.nfresh
	// ghost globals (specification state) are not part of the Go heap: they survive a heap havoc
	keepGhost := map[string]string{}
	for _, p := range c.prog.Pkgs {
		for _, sf := range p.Spec {
			for _, gh := range sf.Ghosts {
				base := ghostBase(p, gh[0])
				keepGhost[base] = c.h(st, base, c.ghostSort(p, gh[0]))
			}
		}
	}
	st.heap = keepGhost
	na := c.alloc(st)
	c.monotoneAlloc(st, oldAlloc, na)
}

func (c *FnCtx) loopInvariants(loop ast.Stmt) []*Clause {
	if !c.fr.isTop || c.con == nil {
		return nil
	}
	n, ok := c.loopOrd[loop]
	if !ok {
		return nil
	}
	return c.con.Loops[n]
}

func (c *FnCtx) evalInvariant(cl *Clause, loop ast.Stmt, st *State) string {
	scope := c.info().Scopes[loop]
	var bodyPos token.Pos
	switch l := loop.(type) {
	case *ast.ForStmt:
		bodyPos = l.Body.Lbrace
	case *ast.RangeStmt:
		bodyPos = l.Body.Lbrace
	}
	args := map[string]string{}
	for _, nm := range cl.Params {
		if g, ok := st.ghost[nm]; ok && (nm == "visited" || nm == "idx" || nm == "ranged" || nm == "outeridx") {
			if _, obj := scope.LookupParent(nm, bodyPos); obj == nil {
				args[nm] = g
				continue
			}
		}
		_, obj := scope.LookupParent(nm, bodyPos)
		if obj == nil && strings.HasSuffix(nm, "0") {
			if t, ok := c.paramTerms[strings.TrimSuffix(nm, "0")]; ok {
				args[nm] = t
				continue
			}
		}
		if obj == nil {
			c.fail(loop.Pos(), "invariant refers to unknown local %s", nm)
		}
		if _, ok := c.lookupVar(st, obj); !ok {
			// declared later in the loop body (e.g. range value variable): not available at the loop head
			c.fail(loop.Pos(), "invariant refers to %s which is not bound at the loop head", nm)
		}
		args[nm] = c.readVar(st, obj, loop.Pos())
	}
	return c.evalClause(cl, c.pkg, args, st)
}

func (c *FnCtx) checkInvariants(invs []*Clause, loop ast.Stmt, st *State, phase string, pos token.Pos) {
	n := c.loopOrd[loop]
	for i, cl := range invs {
		if cl.Unbound != "" {
			if phase == "init" {
				save := c.curProp
				c.curProp = cl.Prop
				c.oblige(st, "drift", fmt.Sprintf("loop%d.inv[%d].binds", n, i), "false", pos, cl.Text+"  -- "+cl.Unbound)
				c.curProp = save
			}
			continue
		}
		g, ok := c.tryEvalInvariant(cl, loop, st)
		if !ok {
			// the clause no longer binds to this loop (contract drift): reported once as a failed obligation
			save := c.curProp
			c.curProp = cl.Prop
			c.oblige(st, "drift", fmt.Sprintf("loop%d.inv[%d].binds", n, i), "false", pos, cl.Text+"  -- "+cl.Unbound)
			c.curProp = save
			continue
		}
		save := c.curProp
		c.curProp = cl.Prop
		kind := "inv-init"
		if phase == "preserved" {
			kind = "inv-pres"
		}
		c.oblige(st, kind, fmt.Sprintf("loop%d.inv[%d].%s", n, i, phase), g, pos, cl.Text)
		c.curProp = save
	}
}

func (c *FnCtx) assumeInvariants(invs []*Clause, loop ast.Stmt, st *State) {
	for _, cl := range invs {
		if cl.Unbound != "" {
			continue
		}
		if g, ok := c.tryEvalInvariant(cl, loop, st); ok {
			st.addFact(g)
		}
	}
}

// tryEvalInvariant evaluates an invariant clause; a clause that cannot be evaluated against the current code
// (an identifier that no longer resolves, a changed loop form) is marked unbound instead of aborting the function.
func (c *FnCtx) tryEvalInvariant(cl *Clause, loop ast.Stmt, st *State) (g string, ok bool) {
	saveSpecEnv, saveSpecMode, saveFr := len(c.specEnv), c.specMode, c.fr
	defer func() {
		if r := recover(); r != nil {
			if u, isU := r.(unsupported); isU {
				c.specEnv = c.specEnv[:saveSpecEnv]
				c.specMode = saveSpecMode
				c.fr = saveFr
				cl.Unbound = u.msg
				g, ok = "", false
				return
			}
			panic(r)
		}
	}()
	return c.evalInvariant(cl, loop, st), true
}

func (c *FnCtx) execFor(x *ast.ForStmt, st *State, label string) Outs {
	if x.Init != nil {
		st = c.exec(x.Init, st).normal
	}
	if c.unroll > 0 {
		return c.unrollFor(x, st, label)
	}
	invs := c.loopInvariants(x)
	c.checkInvariants(invs, x, st, "init", x.Pos())
	li := c.scanWrites([]ast.Node{x.Cond, x.Body, x.Post})
	h := st
	c.havoc(h, li)
	c.assumeInvariants(invs, x, h)
	exitSt := h.clone()
	bodySt := h
	if x.Cond != nil {
		cond := c.eval(x.Cond, bodySt)
		cond = c.name(bodySt, "lc", cond, sBool)
		// evaluate again in exit state for its own hyps
		exitSt = bodySt.clone()
		exitSt.addCond(not(cond))
		bodySt.addCond(cond)
	} else {
		exitSt = nil
	}
	o := c.execBlock(x.Body.List, bodySt)
	end := c.merge(o.normal, o.cont[""])
	if label != "" {
		end = c.merge(end, o.cont[label])
	}
	if end != nil {
		if x.Post != nil {
			end = c.exec(x.Post, end).normal
		}
		c.checkInvariants(invs, x, end, "preserved", x.Pos())
	}
	out := Outs{normal: exitSt}
	out.normal = c.merge(out.normal, o.brk[""])
	if label != "" {
		out.normal = c.merge(out.normal, o.brk[label])
	}
	for k, v := range o.brk {
		if k != "" && k != label {
			if out.brk == nil {
				out.brk = map[string]*State{}
			}
			out.brk[k] = v
		}
	}
	for k, v := range o.cont {
		if k != "" && k != label {
			if out.cont == nil {
				out.cont = map[string]*State{}
			}
			out.cont[k] = v
		}
	}
	return out
}

func (c *FnCtx) execRange(x *ast.RangeStmt, st *State, label string) Outs {
	if c.unroll > 0 {
		return c.unrollRange(x, st, label)
	}
	xt := c.typeOf(x.X)
	invs := c.loopInvariants(x)
	keyObj, valObj := c.rangeVar(x.Key, x.Tok), c.rangeVar(x.Value, x.Tok)
	outerGhost := map[string]string{}
	for _, g := range []string{"visited", "idx", "ranged", "outeridx"} {
		if v, ok := st.ghost[g]; ok {
			outerGhost[g] = v
		}
	}
	if v, ok := outerGhost["idx"]; ok {
		st.ghost["outeridx"] = v // a nested loop may speak about the enclosing loop's iteration count
	}
	define := func(s *State, obj types.Object, e ast.Expr, v string) {
		if e == nil {
			return
		}
		if id, ok := e.(*ast.Ident); ok && id.Name == "_" {
			return
		}
		if x.Tok == token.DEFINE {
			c.declareLocal(s, obj, v)
		} else {
			c.assignTo(e, v, s)
		}
	}
	finish := func(exitSt *State, o Outs) Outs {
		out := Outs{normal: exitSt}
		out.normal = c.merge(out.normal, o.brk[""])
		if label != "" {
			out.normal = c.merge(out.normal, o.brk[label])
		}
		for k, v := range o.brk {
			if k != "" && k != label {
				if out.brk == nil {
					out.brk = map[string]*State{}
				}
				out.brk[k] = v
			}
		}
		for k, v := range o.cont {
			if k != "" && k != label {
				if out.cont == nil {
					out.cont = map[string]*State{}
				}
				out.cont[k] = v
			}
		}
		// the ghost loop variables of this loop end here; those of an enclosing loop are visible again
		if out.normal != nil {
			for _, g := range []string{"visited", "idx", "ranged", "outeridx"} {
				if old, had := outerGhost[g]; had {
					out.normal.ghost[g] = old
				} else {
					delete(out.normal.ghost, g)
				}
			}
		}
		return out
	}
	switch u := xt.Underlying().(type) {
	case *types.Slice:
		s := c.name(st, "rs", c.eval(x.X, st), sSlice)
		st.ghost["ranged"] = s
		// counter
		st.ghost["idx"] = "0"
		if keyObj != nil {
			define(st, keyObj, x.Key, "0")
		}
		c.checkInvariants(invs, x, st, "init", x.Pos())
		li := c.scanWrites([]ast.Node{x.Body})
		if keyObj != nil {
			li.assignedVars[keyObj] = true
		}
		if valObj != nil {
			delete(li.assignedVars, valObj)
		}
		c.havoc(st, li)
		idx := c.fresh("idx", sInt)
		st.ghost["idx"] = idx
		if keyObj != nil {
			c.setVarTerm(st, keyObj, idx)
		}
		st.addFact(and("(<= 0 "+idx+")", "(<= "+idx+" (slen "+s+"))"))
		c.assumeInvariants(invs, x, st)
		exitSt := st.clone()
		exitSt.addCond(eq(idx, "(slen "+s+")"))
		if keyObj != nil && x.Tok == token.DEFINE {
			delete(exitSt.vars, keyObj)
		}
		bodySt := st
		bodySt.addCond("(< " + idx + " (slen " + s + "))")
		if x.Value != nil {
			n, srt := c.elemsArr(u.Elem())
			ev := sel(sel(c.h(bodySt, n, srt), "(sbase "+s+")"), "(+ (soff "+s+") "+idx+")")
			ev = c.name(bodySt, "rv", ev, c.tt.sortOf(u.Elem()))
			bodySt.addFact(c.typeInv(bodySt, ev, u.Elem(), 0))
			define(bodySt, valObj, x.Value, ev)
		}
		o := c.execBlock(x.Body.List, bodySt)
		end := c.merge(o.normal, o.cont[""])
		if label != "" {
			end = c.merge(end, o.cont[label])
		}
		if end != nil {
			end.ghost["idx"] = "(+ " + idx + " 1)"
			if keyObj != nil {
				c.setVarTerm(end, keyObj, "(+ "+idx+" 1)")
			}
			if valObj != nil && x.Tok == token.DEFINE {
				delete(end.vars, valObj)
			}
			c.checkInvariants(invs, x, end, "preserved", x.Pos())
		}
		return finish(exitSt, o)
	case *types.Map:
		m := c.name(st, "rm", c.eval(x.X, st), sInt)
		dn, ds, vn, vs := c.mapArrs(u)
		ks := c.tt.sortOf(u.Key())
		setSort := "(Array " + ks + " Bool)"
		dom0 := c.name(st, "dom0", sel(c.h(st, dn, ds), m), setSort)
		st.ghost["visited"] = "((as const " + setSort + ") false)"
		c.checkInvariants(invs, x, st, "init", x.Pos())
		li := c.scanWrites([]ast.Node{x.Body})
		if keyObj != nil {
			delete(li.assignedVars, keyObj)
		}
		if valObj != nil {
			delete(li.assignedVars, valObj)
		}
		c.havoc(st, li)
		vis := c.fresh("visited", setSort)
		st.ghost["visited"] = vis
		kq := c.fresh("kq", ks)
		_ = kq
		st.addFact(fmt.Sprintf("(forall ((k %s)) (! (=> (select %s k) (select %s k)) :pattern ((select %s k))))", ks, vis, dom0, vis))
		// the map's current domain is a subset of the entry domain (no insertion while ranging)
		if li.heapBases[dn] || li.heapAll {
			st.addFact(fmt.Sprintf("(forall ((k %s)) (! (=> (select %s k) (select %s k)) :pattern ((select %s k))))", ks, sel(c.h(st, dn, ds), m), dom0, sel(c.h(st, dn, ds), m)))
			c.checkNoInsert(x, u)
		}
		c.assumeInvariants(invs, x, st)
		exitSt := st.clone()
		domNow := sel(c.h(st, dn, ds), m)
		exitSt.addCond(fmt.Sprintf("(forall ((k %s)) (! (=> (select %s k) (select %s k)) :pattern ((select %s k))))", ks, domNow, vis, domNow))
		bodySt := st
		k := c.fresh("k", ks)
		bodySt.addCond(and(sel(domNow, k), not(sel(vis, k))))
		bodySt.addFact(c.typeInv(bodySt, k, u.Key(), 0))
		bodySt.ghost["visited"] = store(vis, k, "true")
		if x.Key != nil {
			define(bodySt, keyObj, x.Key, k)
		}
		if x.Value != nil {
			ev := c.name(bodySt, "rv", sel(sel(c.h(bodySt, vn, vs), m), k), c.tt.sortOf(u.Elem()))
			bodySt.addFact(c.typeInv(bodySt, ev, u.Elem(), 0))
			define(bodySt, valObj, x.Value, ev)
		}
		o := c.execBlock(x.Body.List, bodySt)
		end := c.merge(o.normal, o.cont[""])
		if label != "" {
			end = c.merge(end, o.cont[label])
		}
		if end != nil {
			if x.Tok == token.DEFINE {
				if keyObj != nil {
					delete(end.vars, keyObj)
				}
				if valObj != nil {
					delete(end.vars, valObj)
				}
			}
			c.checkInvariants(invs, x, end, "preserved", x.Pos())
		}
		return finish(exitSt, o)
	case *types.Basic:
		if u.Info()&types.IsString != 0 {
			return c.execRangeString(x, st, label, invs, keyObj, valObj, define, finish)
		}
		if u.Info()&types.IsInteger != 0 {
			n := c.name(st, "rn", c.eval(x.X, st), sInt)
			st.ghost["idx"] = "0"
			if keyObj != nil {
				define(st, keyObj, x.Key, "0")
			}
			c.checkInvariants(invs, x, st, "init", x.Pos())
			li := c.scanWrites([]ast.Node{x.Body})
			c.havoc(st, li)
			idx := c.fresh("idx", sInt)
			st.ghost["idx"] = idx
			if keyObj != nil {
				c.setVarTerm(st, keyObj, idx)
			}
			st.addFact(and("(<= 0 "+idx+")", or("(<= "+idx+" "+n+")", "(< "+n+" 0)")))
			c.assumeInvariants(invs, x, st)
			exitSt := st.clone()
			exitSt.addCond("(>= " + idx + " " + n + ")")
			bodySt := st
			bodySt.addCond("(< " + idx + " " + n + ")")
			o := c.execBlock(x.Body.List, bodySt)
			end := c.merge(o.normal, o.cont[""])
			if end != nil {
				end.ghost["idx"] = "(+ " + idx + " 1)"
				if keyObj != nil {
					c.setVarTerm(end, keyObj, "(+ "+idx+" 1)")
				}
				c.checkInvariants(invs, x, end, "preserved", x.Pos())
			}
			return finish(exitSt, o)
		}
	}
	c.fail(x.Pos(), "unsupported range over %s", xt)
	return Outs{}
}

func (s *State) ghostSafe() map[string]string {
	if s == nil {
		return map[string]string{}
	}
	return s.ghost
}

func (c *FnCtx) setVarTerm(st *State, obj types.Object, term string) {
	if b, ok := st.vars[obj]; ok {
		if b.cell && isStructType(b.typ) {
			c.storeStructCell(st, b.term, b.typ, term)
			return
		}
		if b.cell {
			n, s := c.cellArr(b.typ)
			c.setH(st, n, s, store(c.h(st, n, s), b.term, term))
			return
		}
		st.vars[obj] = &binding{term: term, typ: b.typ}
		return
	}
	st.vars[obj] = &binding{term: term, typ: obj.Type()}
}

func (c *FnCtx) rangeVar(e ast.Expr, tok token.Token) types.Object {
	if e == nil {
		return nil
	}
	id, ok := e.(*ast.Ident)
	if !ok || id.Name == "_" {
		return nil
	}
	if tok == token.DEFINE {
		return c.info().Defs[id]
	}
	return c.info().Uses[id]
}

// checkNoInsert: the body of a map range must not insert into a map of the same type (syntactic).
func (c *FnCtx) checkNoInsert(x *ast.RangeStmt, u *types.Map) {
	info := c.info()
	ast.Inspect(x.Body, func(n ast.Node) bool {
		if as, ok := n.(*ast.AssignStmt); ok {
			for _, l := range as.Lhs {
				if ix, ok := l.(*ast.IndexExpr); ok {
					if mt, ok := info.TypeOf(ix.X).Underlying().(*types.Map); ok && types.Identical(mt, u) {
						if c.src(ix.X) == c.src(x.X) {
							c.fail(as.Pos(), "insertion into the ranged map is not modelled")
						}
					}
				}
			}
		}
		return true
	})
}

// execRangeString models `for i, ch := range s` as an arbitrary sequence of (offset, rune, width).
func (c *FnCtx) execRangeString(x *ast.RangeStmt, st *State, label string, invs []*Clause, keyObj, valObj types.Object,
	define func(*State, types.Object, ast.Expr, string), finish func(*State, Outs) Outs) Outs {
	s := c.name(st, "rstr", c.eval(x.X, st), sString)
	ln := "(blen " + s + ")"
	c.blenFacts(st, s)
	st.ghost["idx"] = "0"
	if keyObj != nil {
		define(st, keyObj, x.Key, "0")
	}
	c.checkInvariants(invs, x, st, "init", x.Pos())
	li := c.scanWrites([]ast.Node{x.Body})
	if valObj != nil {
		delete(li.assignedVars, valObj)
	}
	c.havoc(st, li)
	off := c.fresh("off", sInt)
	st.ghost["idx"] = off
	if keyObj != nil {
		c.setVarTerm(st, keyObj, off)
	}
	st.addFact(and("(<= 0 "+off+")", "(<= "+off+" "+ln+")"))
	c.assumeInvariants(invs, x, st)
	exitSt := st.clone()
	exitSt.addCond(eq(off, ln))
	bodySt := st
	bodySt.addCond("(< " + off + " " + ln + ")")
	w := c.fresh("w", sInt)
	ch := c.fresh("ch", sInt)
	c.declareFun("runeAt", []string{sString, sInt}, sInt)
	c.declareFun("widthAt", []string{sString, sInt}, sInt)
	bodySt.addFact(and(eq(ch, "(runeAt "+s+" "+off+")"), eq(w, "(widthAt "+s+" "+off+")"), "(<= 1 "+w+")", "(<= "+w+" 4)", "(<= (+ "+off+" "+w+") "+ln+")",
		"(<= 0 "+ch+")", "(<= "+ch+" 1114111)", "(= (= "+w+" 1) (or (< "+ch+" 128) (= "+ch+" 65533)))"))
	if x.Value != nil {
		define(bodySt, valObj, x.Value, ch)
	}
	o := c.execBlock(x.Body.List, bodySt)
	end := c.merge(o.normal, o.cont[""])
	if end != nil {
		end.ghost["idx"] = "(+ " + off + " " + w + ")"
		if keyObj != nil {
			c.setVarTerm(end, keyObj, "(+ "+off+" "+w+")")
		}
		if valObj != nil && x.Tok == token.DEFINE {
			delete(end.vars, valObj)
		}
		c.checkInvariants(invs, x, end, "preserved", x.Pos())
	}
	return finish(exitSt, o)
}
