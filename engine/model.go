package main

import (
	"bufio"
	"fmt"
	"go/types"
	"io"
	"math"
	"math/big"
	"os/exec"
	"regexp"
	"strconv"
	"strings"
	"time"
	"unicode/utf8"
)

// ---------- interactive solver session ----------

type ModelSession struct {
	cmd   *exec.Cmd
	in    io.WriteCloser
	out   *bufio.Reader
	cands map[string][]string // sort -> candidate literal terms
	text  string
}

func readSexpr(r *bufio.Reader, deadline time.Time) (string, error) {
	var b strings.Builder
	depth := 0
	inStr := false
	started := false
	for {
		if time.Now().After(deadline) {
			return b.String(), fmt.Errorf("timeout reading solver output")
		}
		ch, err := r.ReadByte()
		if err != nil {
			return b.String(), err
		}
		if !started {
			if ch == ' ' || ch == '\n' || ch == '\r' || ch == '\t' {
				continue
			}
			started = true
		}
		b.WriteByte(ch)
		if inStr {
			if ch == '"' {
				inStr = false
			}
			continue
		}
		switch ch {
		case '"':
			inStr = true
		case '(':
			depth++
		case ')':
			depth--
			if depth == 0 {
				return b.String(), nil
			}
		case '\n':
			if depth == 0 {
				return strings.TrimSpace(b.String()), nil
			}
		}
	}
}

func openModel(smt string, extra []string, timeoutS int) (*ModelSession, string, error) {
	cmd := exec.Command("timeout", fmt.Sprint(timeoutS+30), "z3-new", "-in", fmt.Sprintf("-T:%d", timeoutS+25))
	in, _ := cmd.StdinPipe()
	outp, _ := cmd.StdoutPipe()
	cmd.Stderr = nil
	if err := cmd.Start(); err != nil {
		return nil, "", err
	}
	ms := &ModelSession{cmd: cmd, in: in, out: bufio.NewReaderSize(outp, 1<<20), cands: map[string][]string{}}
	body := strings.Replace(smt, "(check-sat)", "", 1)
	io.WriteString(in, "(set-option :model.completion true)\n"+body+"\n")
	for _, x := range extra {
		io.WriteString(in, "(assert "+x+")\n")
	}
	io.WriteString(in, "(check-sat)\n")
	res, err := readSexpr(ms.out, time.Now().Add(time.Duration(timeoutS)*time.Second))
	if err != nil {
		ms.Close()
		return nil, "", err
	}
	res = strings.TrimSpace(res)
	if res != "sat" {
		ms.Close()
		return nil, res, nil
	}
	io.WriteString(in, "(get-model)\n")
	txt, err := readSexpr(ms.out, time.Now().Add(20*time.Second))
	if err != nil {
		ms.Close()
		return nil, "sat", err
	}
	ms.text = txt
	seenS := map[string]bool{}
	for _, m := range regexp.MustCompile(`"(?:[^"]|"")*"`).FindAllString(txt+" "+smt, -1) {
		if !seenS[m] && len(ms.cands["String"]) < 300 {
			seenS[m] = true
			ms.cands["String"] = append(ms.cands["String"], m)
		}
	}
	seenI := map[string]bool{}
	for _, m := range regexp.MustCompile(`\(- \d+\)|\b\d+\b`).FindAllString(txt, -1) {
		if !seenI[m] && len(ms.cands["Int"]) < 400 {
			seenI[m] = true
			ms.cands["Int"] = append(ms.cands["Int"], m)
		}
	}
	ms.cands["Bool"] = []string{"true", "false"}
	return ms, "sat", nil
}

func (m *ModelSession) Close() {
	if m == nil {
		return
	}
	m.in.Close()
	m.cmd.Process.Kill()
	m.cmd.Wait()
}

func (m *ModelSession) value(term string) (string, error) {
	io.WriteString(m.in, "(get-value ("+term+"))\n")
	s, err := readSexpr(m.out, time.Now().Add(10*time.Second))
	if err != nil {
		return "", err
	}
	s = strings.TrimSpace(s)
	if strings.HasPrefix(s, "(error") {
		return "", fmt.Errorf("%s", s)
	}
	// ((term value))
	inner := strings.TrimSpace(s[2 : len(s)-2])
	// strip the echoed term: find the value as the last balanced s-expr
	v := lastSexpr(inner)
	return v, nil
}

func lastSexpr(s string) string {
	s = strings.TrimSpace(s)
	if s == "" {
		return s
	}
	if s[len(s)-1] == '"' {
		// string literal: scan backwards for its start (doubling quotes)
		i := len(s) - 2
		for i >= 0 {
			if s[i] == '"' {
				if i > 0 && s[i-1] == '"' {
					i -= 2
					continue
				}
				break
			}
			i--
		}
		return s[i:]
	}
	if s[len(s)-1] != ')' {
		i := strings.LastIndexAny(s, " \n\t")
		return s[i+1:]
	}
	depth := 0
	inStr := false
	for i := len(s) - 1; i >= 0; i-- {
		ch := s[i]
		if inStr {
			if ch == '"' {
				inStr = false
			}
			continue
		}
		switch ch {
		case '"':
			inStr = true
		case ')':
			depth++
		case '(':
			depth--
			if depth == 0 {
				return s[i:]
			}
		}
	}
	return s
}

func parseIntVal(s string) (*big.Int, bool) {
	s = strings.TrimSpace(s)
	neg := false
	if strings.HasPrefix(s, "(-") {
		neg = true
		s = strings.TrimSpace(strings.TrimSuffix(strings.TrimPrefix(s, "(-"), ")"))
	}
	bi, ok := new(big.Int).SetString(s, 10)
	if !ok {
		return nil, false
	}
	if neg {
		bi.Neg(bi)
	}
	return bi, true
}

func parseStrVal(s string) (string, bool) {
	s = strings.TrimSpace(s)
	if len(s) < 2 || s[0] != '"' {
		return "", false
	}
	s = s[1 : len(s)-1]
	s = strings.ReplaceAll(s, `""`, `"`)
	re := regexp.MustCompile(`\\u\{([0-9a-fA-F]+)\}|\\u([0-9a-fA-F]{4})`)
	ok := true
	s = re.ReplaceAllStringFunc(s, func(m string) string {
		sub := re.FindStringSubmatch(m)
		h := sub[1]
		if h == "" {
			h = sub[2]
		}
		n, err := strconv.ParseInt(h, 16, 32)
		if err != nil || n > 0x10ffff || (n >= 0xd800 && n <= 0xdfff) {
			ok = false
			return "?"
		}
		return string(rune(n))
	})
	return s, ok
}

func parseFPVal(s string) (float64, bool) {
	s = strings.TrimSpace(s)
	switch {
	case strings.HasPrefix(s, "(_ +zero"):
		return 0, true
	case strings.HasPrefix(s, "(_ -zero"):
		return math.Copysign(0, -1), true
	case strings.HasPrefix(s, "(_ +oo"):
		return math.Inf(1), true
	case strings.HasPrefix(s, "(_ -oo"):
		return math.Inf(-1), true
	case strings.HasPrefix(s, "(_ NaN"):
		return math.NaN(), true
	}
	f := strings.Fields(strings.Trim(s, "()"))
	if len(f) != 4 || f[0] != "fp" {
		return 0, false
	}
	bits := func(x string) (uint64, int, bool) {
		if strings.HasPrefix(x, "#b") {
			v, err := strconv.ParseUint(x[2:], 2, 64)
			return v, len(x) - 2, err == nil
		}
		if strings.HasPrefix(x, "#x") {
			v, err := strconv.ParseUint(x[2:], 16, 64)
			return v, 4 * (len(x) - 2), err == nil
		}
		return 0, 0, false
	}
	sg, _, ok1 := bits(f[1])
	ex, _, ok2 := bits(f[2])
	mn, _, ok3 := bits(f[3])
	if !ok1 || !ok2 || !ok3 {
		return 0, false
	}
	return math.Float64frombits(sg<<63 | ex<<52 | mn), true
}

// ---------- model values ----------

type MVal struct {
	Kind   string // int | string | bool | float | ptr | cellptr | slice | map | iface | struct | unknown
	Type   types.Type
	Int    *big.Int
	Str    string
	Bool   bool
	F      float64
	Ref    int64
	Nil    bool
	Fields []MField
	Elems  []*MVal
	Keys   []*MVal
	Vals   []*MVal
	Dyn    *MVal // iface payload (with Type = dynamic type)
	Bad    string
	varName string
}

type MField struct {
	Name string
	Val  *MVal
}

type extractor struct {
	c     *FnCtx
	ms    *ModelSession
	memo  map[string]*MVal
	bad   []string
	epoch int
	lenient bool // results: unknown dynamic types are fine (only nil-ness is compared)
}

func (x *extractor) heap(base string) (string, bool) {
	n := x.c.heapName(base, x.epoch)
	return n, x.c.declSet[n]
}

func (x *extractor) intOf(term string) (*big.Int, bool) {
	v, err := x.ms.value(term)
	if err != nil {
		return nil, false
	}
	return parseIntVal(v)
}

func (x *extractor) extract(term string, t types.Type, depth int) *MVal {
	t = types.Unalias(t)
	mv := &MVal{Type: t}
	if depth > 8 {
		mv.Kind, mv.Bad = "unknown", "too deep"
		x.bad = append(x.bad, "depth")
		return mv
	}
	switch u := t.Underlying().(type) {
	case *types.Basic:
		v, err := x.ms.value(term)
		if err != nil {
			mv.Kind, mv.Bad = "unknown", err.Error()
			x.bad = append(x.bad, err.Error())
			return mv
		}
		switch {
		case u.Info()&types.IsBoolean != 0:
			mv.Kind, mv.Bool = "bool", strings.TrimSpace(v) == "true"
		case u.Info()&types.IsInteger != 0:
			bi, ok := parseIntVal(v)
			if !ok {
				mv.Kind, mv.Bad = "unknown", "int parse "+v
				x.bad = append(x.bad, mv.Bad)
				return mv
			}
			lo, hi, bits, _ := intRange(u)
			if bits > 0 && (bi.Cmp(lo) < 0 || bi.Cmp(hi) > 0) {
				mv.Bad = "out of range"
				x.bad = append(x.bad, "int out of range")
			}
			mv.Kind, mv.Int = "int", bi
		case u.Info()&types.IsString != 0:
			s, ok := parseStrVal(v)
			if !ok {
				x.bad = append(x.bad, "string not representable")
			}
			mv.Kind, mv.Str = "string", s
			if rs, ok := x.runeString(term); ok {
				mv.Str = rs
			}
			if rs, ok := x.runeRowString(term); ok {
				mv.Str = rs
			}
		case u.Info()&types.IsFloat != 0:
			f, ok := parseFPVal(v)
			if !ok {
				x.bad = append(x.bad, "float parse "+v)
			}
			mv.Kind, mv.F = "float", f
		default:
			mv.Kind, mv.Bad = "unknown", "basic kind"
			x.bad = append(x.bad, "basic kind")
		}
		return mv
	case *types.Pointer:
		r, ok := x.intOf(term)
		if !ok {
			mv.Kind, mv.Bad = "unknown", "ref"
			x.bad = append(x.bad, "ref")
			return mv
		}
		mv.Ref = r.Int64()
		if r.Sign() == 0 {
			mv.Kind, mv.Nil = "ptr", true
			return mv
		}
		key := fmt.Sprintf("p%d:%s", r.Int64(), types.TypeString(t, nil))
		if m, ok := x.memo[key]; ok {
			return m
		}
		x.memo[key] = mv
		if s, ok := u.Elem().Underlying().(*types.Struct); ok {
			mv.Kind = "ptr"
			for i := 0; i < s.NumFields(); i++ {
				f := s.Field(i)
				if !f.Exported() && (f.Pkg() == nil || f.Pkg().Path() != x.c.pkg.Path) {
					continue
				}
				base, _ := x.c.fieldArr(u.Elem(), f.Name())
				hn, ok := x.heap(base)
				if !ok {
					continue // never read: any value works, leave zero
				}
				mv.Fields = append(mv.Fields, MField{f.Name(), x.extract(sel(hn, fmt.Sprint(r)), f.Type(), depth+1)})
			}
			return mv
		}
		mv.Kind = "cellptr"
		base, _ := x.c.cellArr(u.Elem())
		if hn, ok := x.heap(base); ok {
			mv.Elems = []*MVal{x.extract(sel(hn, fmt.Sprint(r)), u.Elem(), depth+1)}
		}
		return mv
	case *types.Slice:
		mv.Kind = "slice"
		b, ok1 := x.intOf("(sbase " + term + ")")
		off, ok2 := x.intOf("(soff " + term + ")")
		ln, ok3 := x.intOf("(slen " + term + ")")
		if !ok1 || !ok2 || !ok3 {
			mv.Bad = "slice header"
			x.bad = append(x.bad, "slice header")
			return mv
		}
		if b.Sign() == 0 {
			mv.Nil = true
			return mv
		}
		if ln.Cmp(big.NewInt(8)) > 0 {
			mv.Bad = "slice too long: " + ln.String()
			x.bad = append(x.bad, mv.Bad)
			return mv
		}
		base, _ := x.c.elemsArr(u.Elem())
		hn, declared := x.heap(base)
		for i := int64(0); i < ln.Int64(); i++ {
			if !declared {
				mv.Elems = append(mv.Elems, &MVal{Kind: "zero", Type: u.Elem()})
				continue
			}
			mv.Elems = append(mv.Elems, x.extract(sel(sel(hn, b.String()), fmt.Sprint(off.Int64()+i)), u.Elem(), depth+1))
		}
		return mv
	case *types.Map:
		mv.Kind = "map"
		r, ok := x.intOf(term)
		if !ok {
			mv.Bad = "map ref"
			x.bad = append(x.bad, "map ref")
			return mv
		}
		mv.Ref = r.Int64()
		if r.Sign() == 0 {
			mv.Nil = true
			return mv
		}
		key := fmt.Sprintf("m%d:%s", r.Int64(), types.TypeString(t, nil))
		if m, ok := x.memo[key]; ok {
			return m
		}
		x.memo[key] = mv
		dn, _, vn, _ := x.c.mapArrs(u)
		dh, ok := x.heap(dn)
		if !ok {
			return mv
		}
		vh, vok := x.heap(vn)
		ks := x.c.tt.sortOf(u.Key())
		cands := x.ms.cands[ks]
		if ks == sIface || strings.HasPrefix(ks, "S!") {
			// struct / interface keys: cannot enumerate candidates generically
			cnt, _ := x.intOf("0")
			_ = cnt
		}
		for _, cand := range cands {
			pv, err := x.ms.value(sel(sel(dh, r.String()), cand))
			if err != nil || strings.TrimSpace(pv) != "true" {
				continue
			}
			kv := x.extract(cand, u.Key(), depth+1)
			var vv *MVal
			if vok {
				vv = x.extract(sel(sel(vh, r.String()), cand), u.Elem(), depth+1)
			} else {
				vv = &MVal{Kind: "zero", Type: u.Elem()}
			}
			mv.Keys = append(mv.Keys, kv)
			mv.Vals = append(mv.Vals, vv)
			if len(mv.Keys) > 8 {
				break
			}
		}
		return mv
	case *types.Struct:
		mv.Kind = "struct"
		for i := 0; i < u.NumFields(); i++ {
			f := u.Field(i)
			if !f.Exported() && (f.Pkg() == nil || f.Pkg().Path() != x.c.pkg.Path) {
				continue
			}
			mv.Fields = append(mv.Fields, MField{f.Name(), x.extract("("+x.c.tt.fieldAcc(t, f.Name())+" "+term+")", f.Type(), depth+1)})
		}
		return mv
	case *types.Interface:
		mv.Kind = "iface"
		isnil, err := x.ms.value("((_ is inil) " + term + ")")
		if err != nil {
			mv.Bad = "iface"
			x.bad = append(x.bad, "iface")
			return mv
		}
		if strings.TrimSpace(isnil) == "true" {
			mv.Nil = true
			return mv
		}
		tid, ok := x.intOf("(ityp " + term + ")")
		if !ok {
			mv.Bad = "iface tid"
			x.bad = append(x.bad, "iface tid")
			return mv
		}
		var dynT types.Type
		for k, id := range x.c.tt.tids {
			if int64(id) == tid.Int64() {
				dynT = x.c.tt.tidTypes[k]
			}
		}
		if it, ok := t.Underlying().(*types.Interface); dynT == nil && ok && it.NumMethods() == 0 {
			// an empty-interface value whose dynamic type is none of the types the run knows: any other type
			// stands for it faithfully; the replay uses a type declared nowhere in the code under test
			mv.Dyn = &MVal{Kind: "raw", Str: "struct{ VerifSomeOtherDynamicType int }{}"}
			return mv
		}
		if dynT == nil {
			mv.Bad = fmt.Sprintf("dynamic type id %d is not a known Go type", tid.Int64())
			if !x.lenient {
				x.bad = append(x.bad, mv.Bad)
			}
			return mv
		}
		mv.Dyn = x.extract(x.c.unbox(term, dynT, nil), dynT, depth+1)
		return mv
	}
	mv.Kind, mv.Bad = "unknown", "unsupported type "+t.String()
	x.bad = append(x.bad, mv.Bad)
	return mv
}

// runeString rebuilds a string from the (offset, rune, width) abstraction used for `range` over strings,
// when the model constrains it: the sequence must tile exactly the byte length with valid UTF-8 widths.
func (x *extractor) runeString(term string) (string, bool) {
	if !x.c.declSet["runeAt"] || !x.c.declSet["widthAt"] {
		return "", false
	}
	n, ok := x.intOf("(blen " + term + ")")
	if !ok || n.Sign() <= 0 || n.Cmp(big.NewInt(64)) > 0 {
		return "", false
	}
	var b strings.Builder
	off := int64(0)
	for off < n.Int64() {
		r, ok1 := x.intOf(fmt.Sprintf("(runeAt %s %d)", term, off))
		w, ok2 := x.intOf(fmt.Sprintf("(widthAt %s %d)", term, off))
		if !ok1 || !ok2 || !r.IsInt64() || !w.IsInt64() {
			return "", false
		}
		rv := rune(r.Int64())
		if r.Int64() < 0 || r.Int64() > 0x10ffff || !utf8.ValidRune(rv) || int64(utf8.RuneLen(rv)) != w.Int64() {
			return "", false
		}
		b.WriteRune(rv)
		off += w.Int64()
	}
	if off != n.Int64() {
		return "", false
	}
	return b.String(), true
}
