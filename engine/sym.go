package main

import (
	"fmt"
	"go/ast"
	"go/token"
	"go/types"
	"sort"
	"strings"
)

type Hyp struct {
	s    string
	kind byte // 'c' path condition, 'f' fact, 'd' definition (always safe)
}

type Obl struct {
	Name  string
	Kind  string // post | pre | inv-init | inv-pres | index | nilderef | typeassert | ifacecmp | panic | frame | nilmap | div | slice | lemma | vacuity
	Prop  string
	Fn    string
	Hyps  []Hyp
	Goal  string
	Pos   token.Position
	NDecl int
	Text  string // source text of the clause / operation
	// results
	Status  string // discharged | failed | unknown
	Solver  string
	TimeS   float64
	Detail  string
	Model   string
	InputsOK bool
	ResultTerms []string
	Cl          *Clause // the postcondition clause this obligation comes from (executable replay oracle)
	DeclaredUnreachable bool // reach obligation of a return site the contract declares unreachable
}

type binding struct {
	term string
	cell bool // address-taken local: term is a Ref into the cell heap of its type
	typ  types.Type
}

type State struct {
	vars  map[types.Object]*binding
	heap  map[string]string
	epoch int
	hyps  []Hyp
	ghost map[string]string
}

func (s *State) clone() *State {
	n := &State{vars: make(map[types.Object]*binding, len(s.vars)), heap: make(map[string]string, len(s.heap)), epoch: s.epoch, ghost: make(map[string]string, len(s.ghost))}
	for k, v := range s.vars {
		n.vars[k] = v
	}
	for k, v := range s.heap {
		n.heap[k] = v
	}
	for k, v := range s.ghost {
		n.ghost[k] = v
	}
	n.hyps = make([]Hyp, len(s.hyps), len(s.hyps)+16)
	copy(n.hyps, s.hyps)
	return n
}

func (s *State) addCond(c string) {
	if c == "true" {
		return
	}
	s.hyps = append(s.hyps, Hyp{c, 'c'})
}
func (s *State) addFact(c string) {
	if c == "true" {
		return
	}
	s.hyps = append(s.hyps, Hyp{c, 'f'})
}
func (s *State) addDef(c string) { s.hyps = append(s.hyps, Hyp{c, 'd'}) }

// Outs is the result of executing a statement.
type Outs struct {
	normal *State
	brk    map[string]*State
	cont   map[string]*State
}

type retRec struct {
	st   *State
	vals []string
}

type frame struct {
	pkg      *Pkg
	fd       *ast.FuncDecl
	sig      *types.Signature
	results  []*types.Var // named results (may be nil entries)
	rets     *[]retRec    // collector for inline calls (nil at top level)
	labels   map[ast.Stmt]string
	isTop    bool
	litDepth int
}

type FnCtx struct {
	eng     *Engine
	prog    *Program
	tt      *TypeTable
	pkg     *Pkg // package of the function under verification
	fd      *ast.FuncDecl
	fobj    *types.Func
	con     *FuncContract
	fname   string
	decls   []string
	declSet map[string]bool
	heapSort map[string]string
	obls    []*Obl
	nfresh  int
	entry   *State
	fr      *frame
	specEnv []map[types.Object]string
	specMode int
	oldState *State
	curProp string
	labelN  map[string]int
	abstractions map[string]bool
	assumedUsed  map[string]bool
	inlineDepth  int
	paramTerms   map[string]string // name -> entry term (params incl. receiver)
	paramObjs    []*types.Var
	resultNames  []string
	closures     map[types.Object]*closure
	loopOrd      map[ast.Stmt]int
	errs         []string
	npaths       int
	frameOn      bool
	safetyOn     bool
	ufDecl       map[string]bool
	stringsSeen  map[string]bool
	inputTerms   []inputTerm
	retSite      string
	unroll       int
	cmpLabel     string
	frameNoted   bool
	runeRows     [][3]string // []rune(s) conversions: string term, element row term, length term
	axiomsDone   bool
	axiomCache   []string
	baseElem     map[string]types.Type
	baseKeySort  map[string]string
	recordBases  map[string]string
	revealed     map[string]bool
	opaqueDeps   map[string][]string
	fieldCells   map[types.Object]map[string]string
	frameExtraAllow string // extra disjunct for the next frame obligation (see coverModifies)
	usesReflect  bool
}

type inputTerm struct {
	name string
	term string
	typ  types.Type
}

type closure struct {
	lit *ast.FuncLit
	fr  *frame
}

type unsupported struct{ msg string }

func (c *FnCtx) fail(pos token.Pos, format string, a ...any) {
	p := c.prog.Fset.Position(pos)
	panic(unsupported{fmt.Sprintf("%s:%d: ", shortFile(p.Filename), p.Line) + fmt.Sprintf(format, a...)})
}

func shortFile(f string) string {
	if i := strings.Index(f, "/repo/"); i >= 0 {
		return f[i+6:]
	}
	if i := strings.Index(f, "/pkg/mod/"); i >= 0 {
		return f[i+9:]
	}
	return f
}

// ---------- fresh names, declarations ----------

func (c *FnCtx) declare(name, sort string) {
	if c.declSet[name] {
		return
	}
	c.declSet[name] = true
	c.decls = append(c.decls, fmt.Sprintf("(declare-const %s %s)", name, sort))
}

func (c *FnCtx) declareFun(name string, args []string, ret string) {
	if c.declSet[name] {
		return
	}
	c.declSet[name] = true
	c.decls = append(c.decls, fmt.Sprintf("(declare-fun %s (%s) %s)", name, strings.Join(args, " "), ret))
}

func (c *FnCtx) fresh(prefix, sort string) string {
	c.nfresh++
	n := fmt.Sprintf("%s!%d", sanitize(prefix), c.nfresh)
	c.declare(n, sort)
	return n
}

// name gives a long term a short name (definition hypothesis) in code mode.
func (c *FnCtx) name(st *State, prefix, term, sort string) string {
	if c.specMode > 0 || len(term) < 60 {
		return term
	}
	n := c.fresh(prefix, sort)
	st.addDef(eq(n, term))
	return n
}

// ---------- heap access ----------

func (c *FnCtx) heapName(base string, epoch int) string {
	if strings.HasPrefix(base, "G!") {
		base = "G!" + sanitize(base[2:]) // package-level variables may have non-ASCII names (ΛEnum)
	}
	return fmt.Sprintf("%s@%d", base, epoch)
}

func (c *FnCtx) h(st *State, base, sort string) string {
	if c.recordBases != nil {
		c.recordBases[base] = sort
	}
	if t, ok := st.heap[base]; ok {
		return t
	}
	c.heapSort[base] = sort
	n := c.heapName(base, st.epoch)
	if !c.declSet[n] {
		c.declare(n, sort)
		if base != "alloc" {
			al := c.heapName("alloc", st.epoch)
			c.declare(al, "(Array Int Bool)")
			if ax := c.closureAxiom(n, base, al); ax != "" {
				c.decls = append(c.decls, "(assert "+ax+")")
			}
			if strings.HasPrefix(sort, "Seq!") {
				c.decls = append(c.decls, "(assert (>= (qlen"+sort+" "+n+") 0))")
			}
			if strings.HasPrefix(base, "MD!") {
				// the nil map has no keys in every heap state
				inner := strings.TrimSuffix(strings.TrimPrefix(sort, "(Array Int "), ")")
				c.decls = append(c.decls, "(assert (= (select "+n+" 0) ((as const "+inner+") false)))")
			}
		}
	}
	return n
}

// closureAxiom: references stored in a well-formed heap array point to allocated objects (w.r.t. alloc term al).
func (c *FnCtx) closureAxiom(arr, base, al string) string {
	t, ok := c.baseElem[base]
	if !ok {
		return ""
	}
	inv := func(term string) string { return c.typeInvAl(al, term, t, 0) }
	if inv("x") == "true" {
		return ""
	}
	switch {
	case strings.HasPrefix(base, "F!"), strings.HasPrefix(base, "C!"):
		return "(forall ((r Int)) (! (=> (select " + al + " r) " + inv("(select "+arr+" r)") + ") :pattern ((select " + arr + " r))))"
	case strings.HasPrefix(base, "E!"):
		return "(forall ((r Int) (i Int)) (! (=> (select " + al + " r) " + inv("(select (select "+arr+" r) i)") + ") :pattern ((select (select " + arr + " r) i))))"
	case strings.HasPrefix(base, "MV!"):
		ks := c.baseKeySort[base]
		if ks == "" {
			return ""
		}
		return "(forall ((r Int) (k " + ks + ")) (! (=> (select " + al + " r) " + inv("(select (select "+arr+" r) k)") + ") :pattern ((select (select " + arr + " r) k))))"
	}
	return ""
}

func (c *FnCtx) setH(st *State, base, sort, term string) {
	c.heapSort[base] = sort
	if len(term) > 200 {
		n := c.fresh("h_"+base, sort)
		st.addDef(eq(n, term))
		term = n
	}
	st.heap[base] = term
}

func (c *FnCtx) fieldArr(structT types.Type, field string) (string, string) {
	st := structT.Underlying().(*types.Struct)
	var ft types.Type
	for i := 0; i < st.NumFields(); i++ {
		if st.Field(i).Name() == field {
			ft = st.Field(i).Type()
		}
	}
	if ft == nil {
		panic(unsupported{"no field " + field})
	}
	bn := "F!" + c.tt.key(structT) + "!" + symField(field)
	c.baseElem[bn] = ft
	return bn, "(Array Int " + c.tt.sortOf(ft) + ")"
}

func (c *FnCtx) elemsArr(elem types.Type) (string, string) {
	c.baseElem["E!"+c.tt.key(elem)] = elem
	return "E!" + c.tt.key(elem), "(Array Int (Array Int " + c.tt.sortOf(elem) + "))"
}

func (c *FnCtx) cellArr(elem types.Type) (string, string) {
	c.baseElem["C!"+c.tt.key(elem)] = elem
	return "C!" + c.tt.key(elem), "(Array Int " + c.tt.sortOf(elem) + ")"
}

func (c *FnCtx) mapArrs(m *types.Map) (dom, domSort, val, valSort string) {
	k := c.tt.key(m.Key()) + "!" + c.tt.key(m.Elem())
	ks := c.tt.sortOf(m.Key())
	c.baseElem["MV!"+k] = m.Elem()
	c.baseKeySort["MV!"+k] = ks
	return "MD!" + k, "(Array Int (Array " + ks + " Bool))", "MV!" + k, "(Array Int (Array " + ks + " " + c.tt.sortOf(m.Elem()) + "))"
}

func (c *FnCtx) alloc(st *State) string { return c.h(st, "alloc", "(Array Int Bool)") }

// newRef allocates a fresh object reference.
func (c *FnCtx) newRef(st *State, what string) string {
	r := c.fresh("new_"+what, sInt)
	al := c.alloc(st)
	st.addDef(and("(> "+r+" 0)", not(sel(al, r))))
	c.setH(st, "alloc", "(Array Int Bool)", store(al, r, "true"))
	return r
}

// zero value term for a Go type.
func (c *FnCtx) zero(t types.Type) string {
	t = types.Unalias(t)
	if _, ok := isSetType(t); ok {
		return "((as const " + c.tt.sortOf(t) + ") false)"
	}
	if isBufferType(t) {
		return `""`
	}
	if isReflectValue(t) {
		return "inil"
	}
	switch u := t.Underlying().(type) {
	case *types.Basic:
		switch {
		case u.Info()&types.IsBoolean != 0:
			return "false"
		case u.Info()&types.IsInteger != 0:
			return "0"
		case u.Info()&types.IsString != 0:
			return `""`
		case u.Info()&types.IsFloat != 0:
			return "fpzero"
		}
		return "0"
	case *types.Slice:
		return "nilSlice"
	case *types.Interface:
		return "inil"
	case *types.Struct:
		s := c.tt.sortOf(t)
		if u.NumFields() == 0 {
			return "(mk!" + s + " 0)"
		}
		var fs []string
		for i := 0; i < u.NumFields(); i++ {
			fs = append(fs, c.zero(u.Field(i).Type()))
		}
		return "(mk!" + s + " " + strings.Join(fs, " ") + ")"
	case *types.Array:
		return "((as const " + c.tt.sortOf(t) + ") " + c.zero(u.Elem()) + ")"
	}
	return "0"
}

// typeInv: facts known about any value of Go type t (in state st).
func (c *FnCtx) typeInv(st *State, term string, t types.Type, depth int) string {
	return c.typeInvAl("", term, t, depth, st)
}

// typeInvAl is typeInv with respect to an explicit alloc term (or the state's current one).
func (c *FnCtx) typeInvAl(al string, term string, t types.Type, depth int, sts ...*State) string {
	var st *State
	if len(sts) > 0 {
		st = sts[0]
	}
	alloc := func() string {
		if al != "" {
			return al
		}
		return c.alloc(st)
	}
	t = types.Unalias(t)
	if _, ok := isSetType(t); ok {
		return "true"
	}
	if _, ok := isSeqType(t); ok {
		return "true"
	}
	if isBufferType(t) {
		return "true"
	}
	if isReflectValue(t) {
		return c.typeInvAl(al, term, types.NewInterfaceType(nil, nil), depth, sts...)
	}
	switch u := t.Underlying().(type) {
	case *types.Basic:
		if u.Info()&types.IsInteger != 0 {
			lo, hi, bits, _ := intRange(u)
			if bits == 0 {
				return "true"
			}
			return and("(<= "+intLit(lo)+" "+term+")", "(<= "+term+" "+intLit(hi)+")")
		}
		return "true"
	case *types.Pointer, *types.Map:
		return or(eq(term, "0"), and("(> "+term+" 0)", sel(alloc(), term)))
	case *types.Slice:
		b := "(sbase " + term + ")"
		return and("(>= (soff "+term+") 0)", "(>= (slen "+term+") 0)", "(<= (slen "+term+") (scap "+term+"))", "(<= (+ (soff "+term+") (scap "+term+")) 1152921504606846976)",
			or(and(eq(b, "0"), eq("(scap "+term+")", "0"), eq("(soff "+term+")", "0")), and("(> "+b+" 0)", sel(alloc(), b))))
	case *types.Struct:
		if depth > 3 {
			return "true"
		}
		var fs []string
		for i := 0; i < u.NumFields(); i++ {
			f := u.Field(i)
			fs = append(fs, c.typeInvAl(al, "("+c.tt.fieldAcc(t, f.Name())+" "+term+")", f.Type(), depth+1, st))
		}
		return and(fs...)
	case *types.Interface:
		if n, ok := types.Unalias(t).(*types.Named); ok && n.Obj().Pkg() != nil && n.Obj().Pkg().Path() == "reflect" && n.Obj().Name() == "Type" {
			// a reflect.Type is nil or the canonical box of its type id (reflect mini-model)
			c.useReflect()
			return or(eq(term, "inil"), eq(term, c.rtypeBox("(iint "+term+")")))
		}
		return or(eq(term, "inil"), and("((_ is ibox) "+term+")", "(>= (iref "+term+") 0)", or(eq("(iref "+term+")", "0"), sel(alloc(), "(iref "+term+")")),
			or(eq("(sbase (isl "+term+"))", "0"), sel(alloc(), "(sbase (isl "+term+"))"))))
	}
	return "true"
}

// ---------- obligations ----------

func (c *FnCtx) oblige(st *State, kind, label, goal string, pos token.Pos, text string) {
	if c.specMode > 0 {
		return
	}
	if goal == "true" {
		// still count trivially true obligations for post/inv kinds so that the count is stable
		if kind != "post" && kind != "inv-init" && kind != "inv-pres" && kind != "pre" && kind != "frame" {
			return
		}
	}
	if parts := splitAnd(goal); len(parts) > 1 && kind != "vacuity" && kind != "reach" {
		for i, p := range parts {
			c.oblige(st, kind, fmt.Sprintf("%s.%d", label, i+1), p, pos, text)
		}
		return
	}
	base := c.fname + "#" + label
	c.labelN[base]++
	name := base
	if n := c.labelN[base]; n > 1 {
		name = fmt.Sprintf("%s~%d", base, n)
	}
	hy := make([]Hyp, len(st.hyps))
	copy(hy, st.hyps)
	o := &Obl{Name: name, Kind: kind, Prop: c.curProp, Fn: c.fname, Hyps: hy, Goal: goal, NDecl: len(c.decls), Text: text}
	if pos.IsValid() {
		o.Pos = c.prog.Fset.Position(pos)
	}
	c.obls = append(c.obls, o)
}

// topLevelArgs splits the argument list of an s-expression application.
func topLevelArgs(body string) []string {
	var parts []string
	depth := 0
	inStr := false
	start := -1
	for i := 0; i < len(body); i++ {
		ch := body[i]
		if inStr {
			if ch == '"' {
				inStr = false
			}
			continue
		}
		switch ch {
		case '"':
			inStr = true
			if depth == 0 && start < 0 {
				start = i
			}
		case '(':
			if depth == 0 && start < 0 {
				start = i
			}
			depth++
		case ')':
			depth--
			if depth == 0 {
				parts = append(parts, body[start:i+1])
				start = -1
			}
		case ' ', '\n', '\t':
			if depth == 0 && start >= 0 {
				parts = append(parts, body[start:i])
				start = -1
			}
		default:
			if depth == 0 && start < 0 {
				start = i
			}
		}
	}
	if start >= 0 {
		parts = append(parts, body[start:])
	}
	return parts
}

// splitAnd splits a top-level (and a b ...) goal into its conjuncts (recursively).
func splitAnd(g string) []string {
	if strings.HasPrefix(g, "(=> ") {
		// (=> P (and A B)) splits into (=> P A), (=> P B)
		args := topLevelArgs(g[4 : len(g)-1])
		if len(args) == 2 {
			cons := splitAnd(args[1])
			if len(cons) > 1 {
				var out []string
				for _, c := range cons {
					out = append(out, "(=> "+args[0]+" "+c+")")
				}
				return out
			}
		}
		return []string{g}
	}
	if !strings.HasPrefix(g, "(and ") {
		return []string{g}
	}
	var parts []string
	depth := 0
	inStr := false
	start := -1
	body := g[5 : len(g)-1]
	for i := 0; i < len(body); i++ {
		ch := body[i]
		if inStr {
			if ch == '"' {
				inStr = false
			}
			continue
		}
		switch ch {
		case '"':
			inStr = true
			if depth == 0 && start < 0 {
				start = i
			}
		case '(':
			if depth == 0 && start < 0 {
				start = i
			}
			depth++
		case ')':
			depth--
			if depth == 0 {
				parts = append(parts, body[start:i+1])
				start = -1
			}
		case ' ':
			if depth == 0 && start >= 0 {
				parts = append(parts, body[start:i])
				start = -1
			}
		default:
			if depth == 0 && start < 0 {
				start = i
			}
		}
	}
	if start >= 0 {
		parts = append(parts, body[start:])
	}
	var out []string
	for _, p := range parts {
		out = append(out, splitAnd(p)...)
	}
	return out
}

// safety obligation (only when safety contracts are on and not in spec mode)
func (c *FnCtx) safety(st *State, kind, label, goal string, pos token.Pos) {
	if c.specMode > 0 || !c.safetyOn {
		return
	}
	save := c.curProp
	c.curProp = c.safetyProp()
	c.oblige(st, kind, kind+"["+label+"]", goal, pos, label)
	c.curProp = save
	// after the check, the operation succeeded: assume the goal on the continuing path
	st.addFact(goal)
}

func (c *FnCtx) safetyProp() string {
	if c.con != nil && c.con.SafetyProp != "" {
		return c.con.SafetyProp
	}
	if c.con != nil {
		return c.con.Primary
	}
	return ""
}

func (c *FnCtx) frameProp() string {
	if c.con != nil && c.con.FrameProp != "" {
		return c.con.FrameProp
	}
	if c.con != nil {
		return c.con.Primary
	}
	return ""
}

// ---------- merging ----------

func commonPrefix(a, b []Hyp) int {
	n := len(a)
	if len(b) < n {
		n = len(b)
	}
	i := 0
	for i < n && a[i] == b[i] {
		i++
	}
	return i
}

func (c *FnCtx) guardOf(st *State, incr []Hyp, into *[]Hyp) string {
	var cs []string
	for _, h := range incr {
		if h.kind == 'c' {
			cs = append(cs, h.s)
		}
	}
	g := and(cs...)
	if len(g) > 40 {
		n := c.fresh("g", sBool)
		*into = append(*into, Hyp{eq(n, g), 'd'})
		return n
	}
	return g
}

func (c *FnCtx) merge(a, b *State) *State {
	if a == nil {
		return b
	}
	if b == nil {
		return a
	}
	p := commonPrefix(a.hyps, b.hyps)
	m := &State{vars: map[types.Object]*binding{}, heap: map[string]string{}, ghost: map[string]string{}, epoch: a.epoch}
	m.hyps = make([]Hyp, p, len(a.hyps)+len(b.hyps))
	copy(m.hyps, a.hyps[:p])
	ia, ib := a.hyps[p:], b.hyps[p:]
	for _, h := range ia {
		if h.kind == 'd' {
			m.hyps = append(m.hyps, h)
		}
	}
	for _, h := range ib {
		if h.kind == 'd' {
			m.hyps = append(m.hyps, h)
		}
	}
	ga := c.guardOf(a, ia, &m.hyps)
	gb := c.guardOf(b, ib, &m.hyps)
	m.hyps = append(m.hyps, Hyp{or(ga, gb), 'c'})
	for _, h := range ia {
		if h.kind == 'f' {
			m.hyps = append(m.hyps, Hyp{implies(ga, h.s), 'f'})
		}
	}
	for _, h := range ib {
		if h.kind == 'f' {
			m.hyps = append(m.hyps, Hyp{implies(gb, h.s), 'f'})
		}
	}
	if a.epoch != b.epoch {
		// different heap epochs: materialise all heap arrays of both
		for k := range c.heapSort {
			ta, tb := c.h(a, k, c.heapSort[k]), c.h(b, k, c.heapSort[k])
			if ta != tb {
				m.heap[k] = c.nameM(m, "h", ite(ga, ta, tb), c.heapSort[k])
			} else {
				m.heap[k] = ta
			}
		}
	} else {
		keys := map[string]bool{}
		for k := range a.heap {
			keys[k] = true
		}
		for k := range b.heap {
			keys[k] = true
		}
		for _, k := range sortedKeysB(keys) {
			ta, tb := c.h(a, k, c.heapSort[k]), c.h(b, k, c.heapSort[k])
			if ta == tb {
				m.heap[k] = ta
			} else {
				m.heap[k] = c.nameM(m, "h", ite(ga, ta, tb), c.heapSort[k])
			}
		}
	}
	for k, va := range a.vars {
		vb, ok := b.vars[k]
		if !ok {
			continue // variable went out of scope on one side
		}
		if va.term == vb.term {
			m.vars[k] = va
		} else {
			m.vars[k] = &binding{term: c.nameM(m, k.Name(), ite(ga, va.term, vb.term), c.tt.sortOf(va.typ)), cell: va.cell, typ: va.typ}
		}
	}
	for k, ta := range a.ghost {
		tb, ok := b.ghost[k]
		if !ok {
			continue
		}
		if ta == tb {
			m.ghost[k] = ta
		} else {
			m.ghost[k] = ite(ga, ta, tb)
		}
	}
	return m
}

func (c *FnCtx) nameM(m *State, prefix, term, sort string) string {
	if len(term) < 60 {
		return term
	}
	n := c.fresh(prefix, sort)
	m.hyps = append(m.hyps, Hyp{eq(n, term), 'd'})
	return n
}

func sortedKeysB(m map[string]bool) []string {
	ks := make([]string, 0, len(m))
	for k := range m {
		ks = append(ks, k)
	}
	sort.Strings(ks)
	return ks
}

func (c *FnCtx) mergeOuts(a, b Outs) Outs {
	o := Outs{normal: c.merge(a.normal, b.normal)}
	merge := func(x, y map[string]*State) map[string]*State {
		if len(x) == 0 {
			return y
		}
		if len(y) == 0 {
			return x
		}
		r := map[string]*State{}
		for k, v := range x {
			r[k] = v
		}
		for k, v := range y {
			r[k] = c.merge(r[k], v)
		}
		return r
	}
	o.brk = merge(a.brk, b.brk)
	o.cont = merge(a.cont, b.cont)
	return o
}

// seqOuts: outcome of running `next` after `first`.
func (c *FnCtx) addEscapes(dst *Outs, src Outs) {
	for k, v := range src.brk {
		if dst.brk == nil {
			dst.brk = map[string]*State{}
		}
		dst.brk[k] = c.merge(dst.brk[k], v)
	}
	for k, v := range src.cont {
		if dst.cont == nil {
			dst.cont = map[string]*State{}
		}
		dst.cont[k] = c.merge(dst.cont[k], v)
	}
}

// ---------- variables ----------

func (c *FnCtx) lookupVar(st *State, obj types.Object) (*binding, bool) {
	for i := len(c.specEnv) - 1; i >= 0; i-- {
		if t, ok := c.specEnv[i][obj]; ok {
			return &binding{term: t, typ: obj.Type()}, true
		}
	}
	b, ok := st.vars[obj]
	return b, ok
}

func (c *FnCtx) readVar(st *State, obj types.Object, pos token.Pos) string {
	b, ok := c.lookupVar(st, obj)
	if !ok {
		// package-level variable: treat as heap global
		if v, isVar := obj.(*types.Var); isVar && v.Parent() != nil && v.Pkg() != nil && v.Parent() == v.Pkg().Scope() {
			return c.h(st, "G!"+v.Pkg().Name()+"."+v.Name(), c.tt.sortOf(v.Type()))
		}
		c.fail(pos, "unbound variable %s", obj.Name())
	}
	if b.cell {
		if isStructType(b.typ) {
			// an address-taken struct local lives in the field arrays, like every struct object reached through a pointer
			return c.loadThrough(st, b.term, b.typ)
		}
		n, s := c.cellArr(b.typ)
		return sel(c.h(st, n, s), b.term)
	}
	return b.term
}

func isStructType(t types.Type) bool {
	if isBufferType(t) || isReflectValue(t) {
		return false
	}
	_, ok := t.Underlying().(*types.Struct)
	return ok
}

// storeStructCell writes a whole struct value into the field arrays at ref r (a local's own storage: no frame check).
func (c *FnCtx) storeStructCell(st *State, r string, t types.Type, v string) {
	s := t.Underlying().(*types.Struct)
	v = c.name(st, "sv", v, c.tt.sortOf(t))
	for i := 0; i < s.NumFields(); i++ {
		f := s.Field(i)
		n, srt := c.fieldArr(t, f.Name())
		c.setH(st, n, srt, store(c.h(st, n, srt), r, "("+c.tt.fieldAcc(t, f.Name())+" "+v+")"))
	}
}

func (c *FnCtx) declareLocal(st *State, obj types.Object, term string) {
	if obj == nil || obj.Name() == "_" {
		return
	}
	v, _ := obj.(*types.Var)
	if v != nil && c.addrTaken(v) {
		if isStructType(v.Type()) {
			r := c.allocStruct(st, v.Type(), term)
			st.vars[obj] = &binding{term: r, cell: true, typ: v.Type()}
			return
		}
		r := c.newRef(st, "cell_"+v.Name())
		n, s := c.cellArr(v.Type())
		c.setH(st, n, s, store(c.h(st, n, s), r, term))
		st.vars[obj] = &binding{term: r, cell: true, typ: v.Type()}
		return
	}
	st.vars[obj] = &binding{term: c.name(st, obj.Name(), term, c.tt.sortOf(obj.Type())), typ: obj.Type()}
	if v != nil {
		// `&v.f` on a struct-valued local that is never assigned after its declaration: the field gets a cell of its
		// own, allocated here and holding the field's value (the variable itself stays a value)
		for _, f := range c.fieldAddrTaken(v) {
			ft := fieldType(v.Type(), f)
			if ft == nil {
				continue
			}
			r := c.newRef(st, "cell_"+v.Name()+"_"+f)
			n, s := c.cellArr(ft)
			c.tt.sortOf(v.Type())
			c.setH(st, n, s, store(c.h(st, n, s), r, "("+c.tt.fieldAcc(v.Type(), f)+" "+st.vars[obj].term+")"))
			if c.fieldCells == nil {
				c.fieldCells = map[types.Object]map[string]string{}
			}
			if c.fieldCells[obj] == nil {
				c.fieldCells[obj] = map[string]string{}
			}
			c.fieldCells[obj][f] = r
		}
	}
}

// fieldAddrTaken returns the fields f of struct-valued local v for which `&v.f` occurs in the current function.
// It panics (unsupported) when such a variable is assigned after its declaration or when the function stores
// through a pointer of the field's type (the cell and the variable could then disagree).
func (c *FnCtx) fieldAddrTaken(v *types.Var) []string {
	if _, ok := v.Type().Underlying().(*types.Struct); !ok || c.fr == nil || c.fr.fd == nil || c.fr.fd.Body == nil {
		return nil
	}
	if c.eng.fieldAddrCache == nil {
		c.eng.fieldAddrCache = map[*ast.FuncDecl]map[types.Object][]string{}
	}
	fd := c.fr.fd
	m, ok := c.eng.fieldAddrCache[fd]
	if !ok {
		m = map[types.Object][]string{}
		info := c.fr.pkg.Info
		assigned := map[types.Object]bool{}
		var starStores []types.Type
		root := func(e ast.Expr) types.Object {
			for {
				switch x := e.(type) {
				case *ast.ParenExpr:
					e = x.X
					continue
				case *ast.SelectorExpr:
					e = x.X
					continue
				case *ast.Ident:
					return info.Uses[x]
				}
				return nil
			}
		}
		ast.Inspect(fd.Body, func(n ast.Node) bool {
			switch x := n.(type) {
			case *ast.UnaryExpr:
				if x.Op == token.AND {
					if se, ok := unparen(x.X).(*ast.SelectorExpr); ok {
						if id, ok := unparen(se.X).(*ast.Ident); ok {
							if o := info.Uses[id]; o != nil {
								if _, isStruct := o.Type().Underlying().(*types.Struct); isStruct {
									m[o] = append(m[o], se.Sel.Name)
								}
							}
						}
					}
				}
			case *ast.AssignStmt:
				for _, l := range x.Lhs {
					if st, ok := unparen(l).(*ast.StarExpr); ok {
						if pt, ok := info.TypeOf(st.X).Underlying().(*types.Pointer); ok {
							starStores = append(starStores, pt.Elem())
						}
						continue
					}
					if o := root(l); o != nil {
						assigned[o] = true
					}
				}
			case *ast.IncDecStmt:
				if o := root(x.X); o != nil {
					assigned[o] = true
				}
			}
			return true
		})
		for o, fs := range m {
			bad := assigned[o]
			for _, f := range fs {
				ft := fieldType(o.Type(), f)
				for _, st := range starStores {
					if ft != nil && types.Identical(st, ft) {
						bad = true
					}
				}
			}
			if bad {
				m[o] = []string{"!"}
			}
		}
		c.eng.fieldAddrCache[fd] = m
	}
	fs := m[v]
	if len(fs) == 1 && fs[0] == "!" {
		panic(unsupported{"address of a field of local " + v.Name() + " that is also assigned (interior pointers are not modelled)"})
	}
	return fs
}

func (c *FnCtx) assignVar(st *State, obj types.Object, term string, pos token.Pos) {
	if obj == nil || obj.Name() == "_" {
		return
	}
	b, ok := st.vars[obj]
	if !ok {
		if v, isVar := obj.(*types.Var); isVar && v.Pkg() != nil && v.Parent() == v.Pkg().Scope() {
			c.setH(st, "G!"+v.Pkg().Name()+"."+v.Name(), c.tt.sortOf(v.Type()), term)
			return
		}
		c.declareLocal(st, obj, term)
		return
	}
	if b.cell {
		if isStructType(b.typ) {
			c.storeStructCell(st, b.term, b.typ, term)
			return
		}
		n, s := c.cellArr(b.typ)
		c.setH(st, n, s, store(c.h(st, n, s), b.term, term))
		return
	}
	st.vars[obj] = &binding{term: c.name(st, obj.Name(), term, c.tt.sortOf(b.typ)), typ: b.typ}
}

// addrTaken: is &v (or a method call with pointer receiver on v, or closure capture with assignment) present in the current function?
func (c *FnCtx) addrTaken(v *types.Var) bool {
	if c.eng.addrTakenCache == nil {
		c.eng.addrTakenCache = map[*ast.FuncDecl]map[types.Object]bool{}
	}
	fd := c.fr.fd
	m, ok := c.eng.addrTakenCache[fd]
	if !ok {
		m = map[types.Object]bool{}
		info := c.fr.pkg.Info
		if fd.Body != nil {
			ast.Inspect(fd.Body, func(n ast.Node) bool {
				if u, ok := n.(*ast.UnaryExpr); ok && u.Op == token.AND {
					x := u.X
					for {
						if p, ok := x.(*ast.ParenExpr); ok {
							x = p.X
							continue
						}
						break
					}
					if id, ok := x.(*ast.Ident); ok {
						if o := info.Uses[id]; o != nil {
							m[o] = true
						}
					}
				}
				// x.M(...) with a pointer receiver on an addressable struct variable x takes &x implicitly
				if call, ok := n.(*ast.CallExpr); ok {
					if se, ok := unparen(call.Fun).(*ast.SelectorExpr); ok {
						if sel := info.Selections[se]; sel != nil && sel.Kind() == types.MethodVal {
							if fn, ok := sel.Obj().(*types.Func); ok {
								if recv := fn.Type().(*types.Signature).Recv(); recv != nil {
									_, wantPtr := recv.Type().Underlying().(*types.Pointer)
									if id, isID := unparen(se.X).(*ast.Ident); isID && wantPtr {
										if o := info.Uses[id]; o != nil {
											if _, havePtr := o.Type().Underlying().(*types.Pointer); !havePtr && isStructType(o.Type()) {
												m[o] = true
											}
										}
									}
								}
							}
						}
					}
				}
				return true
			})
		}
		c.eng.addrTakenCache[fd] = m
	}
	return m[v]
}
