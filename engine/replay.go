package main

import (
	"encoding/json"
	"fmt"
	"go/types"
	"math"
	"os"
	"os/exec"
	"path/filepath"
	"regexp"
	"sort"
	"strconv"
	"strings"
	"time"
)

type goGen struct {
	pkgPath string
	imports map[string]string // path -> alias
	used    map[string]bool
	decls   []string
	fills   []string
	nvar    int
}

func (g *goGen) qual(p *types.Package) string {
	if p.Path() == g.pkgPath {
		return ""
	}
	if a, ok := g.imports[p.Path()]; ok {
		return a
	}
	a := p.Name()
	for {
		clash := false
		for _, b := range g.imports {
			if b == a {
				clash = true
			}
		}
		if !clash {
			break
		}
		a += "x"
	}
	g.imports[p.Path()] = a
	return a
}

func (g *goGen) typeStr(t types.Type) string { return types.TypeString(t, g.qual) }

func (g *goGen) newVar(prefix string) string {
	g.nvar++
	return fmt.Sprintf("%s%d", prefix, g.nvar)
}

func (g *goGen) imp(path, alias string) string {
	if a, ok := g.imports[path]; ok {
		return a
	}
	g.imports[path] = alias
	return alias
}

func (g *goGen) expr(v *MVal) string {
	if v.Kind == "raw" {
		return v.Str
	}
	t := v.Type
	named := false
	if _, ok := t.(*types.Named); ok {
		named = true
	}
	wrap := func(s string) string {
		if named {
			return g.typeStr(t) + "(" + s + ")"
		}
		return s
	}
	switch v.Kind {
	case "zero", "unknown":
		return "*new(" + g.typeStr(t) + ")"
	case "int":
		return g.typeStr(t) + "(" + v.Int.String() + ")"
	case "string":
		return wrap(strconv.Quote(v.Str))
	case "bool":
		if v.Bool {
			return wrap("true")
		}
		return wrap("false")
	case "float":
		m := g.imp("math", "math")
		switch {
		case math.IsNaN(v.F):
			return wrap(m + ".NaN()")
		case math.IsInf(v.F, 1):
			return wrap(m + ".Inf(1)")
		case math.IsInf(v.F, -1):
			return wrap(m + ".Inf(-1)")
		}
		return wrap(fmt.Sprintf("%s.Float64frombits(0x%x) /* %v */", m, math.Float64bits(v.F), v.F))
	case "ptr":
		if v.Nil {
			return "(" + g.typeStr(t) + ")(nil)"
		}
		if v.varName != "" {
			return v.varName
		}
		v.varName = g.newVar("p")
		et := t.Underlying().(*types.Pointer).Elem()
		g.decls = append(g.decls, fmt.Sprintf("%s := &%s{}", v.varName, g.typeStr(et)))
		for _, f := range v.Fields {
			g.fills = append(g.fills, fmt.Sprintf("%s.%s = %s", v.varName, f.Name, g.expr(f.Val)))
		}
		return v.varName
	case "cellptr":
		if v.Nil {
			return "(" + g.typeStr(t) + ")(nil)"
		}
		if v.varName != "" {
			return v.varName
		}
		v.varName = g.newVar("c")
		et := t.Underlying().(*types.Pointer).Elem()
		g.decls = append(g.decls, fmt.Sprintf("%s := new(%s)", v.varName, g.typeStr(et)), "_ = "+v.varName)
		if len(v.Elems) == 1 {
			g.fills = append(g.fills, fmt.Sprintf("*%s = %s", v.varName, g.expr(v.Elems[0])))
		}
		return v.varName
	case "slice":
		if v.Nil {
			return g.typeStr(t) + "(nil)"
		}
		var es []string
		for _, e := range v.Elems {
			es = append(es, g.expr(e))
		}
		return g.typeStr(t) + "{" + strings.Join(es, ", ") + "}"
	case "map":
		if v.Nil {
			return g.typeStr(t) + "(nil)"
		}
		if v.varName != "" {
			return v.varName
		}
		v.varName = g.newVar("m")
		g.decls = append(g.decls, fmt.Sprintf("%s := %s{}", v.varName, g.typeStr(t)), "_ = "+v.varName)
		for i := range v.Keys {
			g.fills = append(g.fills, fmt.Sprintf("%s[%s] = %s", v.varName, g.expr(v.Keys[i]), g.expr(v.Vals[i])))
		}
		return v.varName
	case "struct":
		var fs []string
		for _, f := range v.Fields {
			fs = append(fs, f.Name+": "+g.expr(f.Val))
		}
		return g.typeStr(t) + "{" + strings.Join(fs, ", ") + "}"
	case "iface":
		if v.Nil || v.Dyn == nil {
			return "nil"
		}
		return g.expr(v.Dyn) // implicit conversion to the interface type (which may be unexported)
	}
	return "*new(" + g.typeStr(t) + ")"
}

// predicted result comparison
func (g *goGen) cmpResult(name string, v *MVal) string {
	switch v.Kind {
	case "int", "string", "bool":
		return fmt.Sprintf("(%s == %s)", name, g.expr(v))
	case "float":
		if math.IsNaN(v.F) {
			return fmt.Sprintf("(%s != %s)", name, name)
		}
		return fmt.Sprintf("(%s == %s)", name, g.expr(v))
	case "ptr", "cellptr", "map", "iface":
		return fmt.Sprintf("((%s == nil) == %v)", name, v.Nil)
	case "slice":
		if v.Nil {
			return fmt.Sprintf("(%s == nil)", name)
		}
		return fmt.Sprintf("(%s != nil && len(%s) == %d)", name, name, len(v.Elems))
	}
	return "true"
}

type ReplayFile struct {
	Property     string   `json:"property"`
	Obligation   string   `json:"obligation"`
	Kind         string   `json:"kind"`
	Function     string   `json:"function"`
	Package      string   `json:"package"`
	Clause       string   `json:"clause"`
	Position     string   `json:"position"`
	Solver       string   `json:"solver"`
	SolverOutput string   `json:"solver_output"`
	Inputs       []string `json:"inputs,omitempty"`
	Predicted    []string `json:"predicted_results,omitempty"`
	TestSource   string   `json:"test_source,omitempty"`
	TestPkgDir   string   `json:"test_pkg_dir,omitempty"`
	RealOutput   string   `json:"real_output,omitempty"`
	Reproduced   bool     `json:"reproduced"`
	Note         string   `json:"note"`
	SMTFile      string   `json:"smt_file"`
	SynthSource  string   `json:"spec_source,omitempty"` // the contract clauses as executable Go (replay oracle)
	Oracle       string   `json:"oracle,omitempty"`
	FoundInput   string   `json:"found_input,omitempty"`
}

// buildReplay extracts a model for a failed obligation and synthesises a Go test.
func (e *Engine) buildReplay(r *FnResult, o *Obl, smt string) *ReplayFile {
	c := r.Ctx
	rf := &ReplayFile{Obligation: o.Name, Kind: o.Kind, Function: r.Fn, Package: r.Pkg, Clause: o.Text, Solver: o.Solver, SolverOutput: o.Detail,
		Position: fmt.Sprintf("%s:%d", shortFile(o.Pos.Filename), o.Pos.Line)}
	if o.Status != "failed" || !strings.Contains(o.Detail, "sat") || strings.Contains(o.Detail, "disagreement") {
		rf.Note = "solver returned no model (" + o.Status + " " + o.Detail + ")"
		return rf
	}
	if c == nil || c.fd == nil {
		rf.Note = "no function context (lemma)"
		return rf
	}
	switch o.Kind {
	case "post", "frame", "index", "nilderef", "typeassert", "ifacecmp", "panic", "nilmap", "div", "slice", "makeslice":
	default:
		rf.Note = "the model is an intermediate state (" + o.Kind + "), not a function input"
		return rf
	}
	// small-model attempt first
	var bounds []string
	for _, it := range c.inputTerms {
		bounds = append(bounds, smallBounds(c, it.term, it.typ)...)
	}
	sliceOnly := append([]string{}, bounds...)
	bounds = append(bounds, mapDomainBounds(c, smt)...)
	ib := ifaceBounds(c)
	ms, res, err := openModel(smt, append(append([]string{}, bounds...), ib...), 8)
	if ms == nil {
		ms, res, err = openModel(smt, append(append([]string{}, sliceOnly...), ib...), 8)
	}
	if ms == nil {
		ms, res, err = openModel(smt, sliceOnly, 8)
	}
	if ms == nil {
		ms, res, err = openModel(smt, ib, 8)
	}
	if ms == nil {
		ms, res, err = openModel(smt, nil, e.timeoutS)
	}
	if ms == nil {
		rf.Note = fmt.Sprintf("model extraction failed (%s %v)", res, err)
		return rf
	}
	defer ms.Close()
	x := &extractor{c: c, ms: ms, memo: map[string]*MVal{}}
	var ins []*MVal
	for _, it := range c.inputTerms {
		ins = append(ins, x.extract(it.term, it.typ, 0))
	}
	var preds []*MVal
	sig := c.fobj.Type().(*types.Signature)
	if o.Kind == "post" {
		x.lenient = true
		for i, rt := range o.ResultTerms {
			if i < sig.Results().Len() {
				preds = append(preds, x.extract(rt, sig.Results().At(i).Type(), 0))
			}
		}
	}
	if len(x.bad) > 0 {
		rf.Note = "model not representable as Go values: " + strings.Join(uniq(x.bad), "; ")
		return rf
	}
	g := &goGen{pkgPath: c.pkg.Path, imports: map[string]string{"testing": "testing", "fmt": "fmt", "encoding/json": "json"}}
	var args []string
	for _, in := range ins {
		args = append(args, g.expr(in))
	}
	rf.Inputs = append(rf.Inputs, g.decls...)
	rf.Inputs = append(rf.Inputs, g.fills...)
	for i, a := range args {
		rf.Inputs = append(rf.Inputs, c.inputTerms[i].name+" = "+a)
	}
	var b strings.Builder
	var inTypes []string
	for _, it := range c.inputTerms {
		inTypes = append(inTypes, g.typeStr(it.typ))
	}
	// call expression
	var argNames []string
	for i := range args {
		argNames = append(argNames, fmt.Sprintf("a%d", i))
	}
	call := c.fd.Name.Name + "(" + strings.Join(argNames, ", ") + ")"
	if sig.Recv() != nil {
		call = "a0." + c.fd.Name.Name + "(" + strings.Join(argNames[1:], ", ") + ")"
	}
	if sig.Variadic() {
		call = strings.TrimSuffix(call, ")") + "...)"
	}
	var resNames []string
	for i := 0; i < sig.Results().Len(); i++ {
		resNames = append(resNames, fmt.Sprintf("r%d", i))
	}
	assign := ""
	if len(resNames) > 0 {
		assign = strings.Join(resNames, ", ") + " := "
	}
	var cmps []string
	for i, p := range preds {
		cmps = append(cmps, g.cmpResult(resNames[i], p))
		rf.Predicted = append(rf.Predicted, g.expr(p))
	}
	match := "true"
	if len(cmps) > 0 {
		match = strings.Join(cmps, " && ")
	}
	iters := 1
	if strings.Contains(smt, "visited!") {
		iters = 300
	}
	mode := "post"
	switch o.Kind {
	case "frame":
		mode = "frame"
	case "post":
	default:
		mode = "panic"
	}
	var changed []string
	if mode == "frame" {
		for i, it := range c.inputTerms {
			switch it.typ.Underlying().(type) {
			case *types.Pointer, *types.Map, *types.Slice, *types.Interface:
				if isProtoMessage(it.typ) {
					pa := g.imp("google.golang.org/protobuf/proto", "proto")
					changed = append(changed, fmt.Sprintf("!%s.Equal(a%d, b%d)", pa, i, i))
				} else {
					ra := g.imp("reflect", "reflect")
					changed = append(changed, fmt.Sprintf("!%s.DeepEqual(a%d, b%d)", ra, i, i))
				}
			}
		}
		if len(changed) == 0 {
			changed = []string{"false"}
		}
	}
	fmt.Fprintf(&b, "func TestVerifReplay(t *testing.T) {\n")
	fmt.Fprintf(&b, "\tbuild := func() (%s) {\n", strings.Join(inTypes, ", "))
	for _, d := range g.decls {
		fmt.Fprintf(&b, "\t\t%s\n", d)
	}
	for _, f := range g.fills {
		fmt.Fprintf(&b, "\t\t%s\n", f)
	}
	fmt.Fprintf(&b, "\t\treturn %s\n\t}\n", strings.Join(args, ", "))
	fmt.Fprintf(&b, "\tout := map[string]any{\"obligation\": %q, \"mode\": %q}\n", o.Name, mode)
	fmt.Fprintf(&b, "\treproduced, panicked := false, false\n\tvar last, oracle, found string\n\t_, _ = oracle, found\n")
	fmt.Fprintf(&b, "\tfor iter := 0; iter < %d && !reproduced; iter++ {\n", iters)
	fmt.Fprintf(&b, "\t\tfunc() {\n")
	fmt.Fprintf(&b, "\t\t\tdefer func() {\n\t\t\t\tif r := recover(); r != nil {\n\t\t\t\t\tpanicked = true\n\t\t\t\t\tlast = fmt.Sprintf(\"panic: %%v\", r)\n")
	if mode == "panic" {
		fmt.Fprintf(&b, "\t\t\t\t\treproduced = true\n")
	}
	fmt.Fprintf(&b, "\t\t\t\t}\n\t\t\t}()\n")
	if len(argNames) > 0 {
		fmt.Fprintf(&b, "\t\t\t%s := build()\n", strings.Join(argNames, ", "))
		for _, an := range argNames {
			fmt.Fprintf(&b, "\t\t\t_ = %s\n", an)
		}
	}
	if mode == "frame" && len(argNames) > 0 {
		var bn []string
		for i := range argNames {
			bn = append(bn, fmt.Sprintf("b%d", i))
		}
		fmt.Fprintf(&b, "\t\t\t%s := build()\n", strings.Join(bn, ", "))
		for _, n := range bn {
			fmt.Fprintf(&b, "\t\t\t_ = %s\n", n)
		}
	}
	fmt.Fprintf(&b, "\t\t\t%s%s\n", assign, call)
	if len(resNames) > 0 {
		var fm []string
		for range resNames {
			fm = append(fm, "%#v")
		}
		fmt.Fprintf(&b, "\t\t\tlast = fmt.Sprintf(%q, %s)\n", strings.Join(fm, ", "), strings.Join(resNames, ", "))
	}
	// executable oracle: the failed postcondition clause itself, evaluated on the real inputs and outputs
	oracleCall := ""
	if mode == "post" && o.Cl != nil && o.Cl.GoFn != "" && clauseExecutable(o.Cl.GoExpr) {
		if synth, ok := execSynthSource(e.prog.SynthSrc[c.pkg.Path]); ok {
			var cargs []string
			good := true
			for _, pn := range o.Cl.Params {
				found := ""
				for i, it := range c.inputTerms {
					if it.name == pn && i < len(argNames) {
						found = argNames[i]
					}
				}
				for j, rn := range c.resultNames {
					if rn == pn && j < len(resNames) {
						found = resNames[j]
					}
				}
				if found == "" {
					good = false
				}
				cargs = append(cargs, found)
			}
			if good {
				oracleCall = o.Cl.GoFn + "(" + strings.Join(cargs, ", ") + ")"
				rf.SynthSource = synth
			}
		}
	}
	switch mode {
	case "post":
		if oracleCall != "" {
			// the clause decides; if it turns out not to be executable on these values, fall back to the model's prediction
			fmt.Fprintf(&b, "\t\t\tfunc() {\n\t\t\t\tdefer func() {\n\t\t\t\t\tif r := recover(); r != nil {\n\t\t\t\t\t\tif _, ne := r.(v_nonexec); ne {\n\t\t\t\t\t\t\toracle = fmt.Sprintf(\"not executable: %%v\", r)\n\t\t\t\t\t\t\tif %s {\n\t\t\t\t\t\t\t\treproduced = true\n\t\t\t\t\t\t\t}\n\t\t\t\t\t\t\treturn\n\t\t\t\t\t\t}\n\t\t\t\t\t\tpanic(r)\n\t\t\t\t\t}\n\t\t\t\t}()\n", match)
			fmt.Fprintf(&b, "\t\t\t\tif %s {\n\t\t\t\t\toracle = \"clause holds\"\n\t\t\t\t} else {\n\t\t\t\t\toracle = \"clause violated\"\n\t\t\t\t\treproduced = true\n\t\t\t\t}\n\t\t\t}()\n", oracleCall)
		} else {
			fmt.Fprintf(&b, "\t\t\tif %s {\n\t\t\t\treproduced = true\n\t\t\t}\n", match)
		}
	case "frame":
		fmt.Fprintf(&b, "\t\t\tif %s {\n\t\t\t\treproduced = true\n\t\t\t}\n", strings.Join(changed, " || "))
	}
	fmt.Fprintf(&b, "\t\t}()\n\t}\n")
	// small-scope sweep: when the model's input does not violate the (executable) clause, run the real function
	// against the clause over a small pool of values per parameter
	if oracleCall != "" && sig.Recv() == nil && len(argNames) > 0 && len(argNames) <= 3 && !sig.Variadic() {
		var pools []string
		okPools := true
		for _, it := range c.inputTerms {
			p := sweepPool(g, it.typ)
			if p == "" {
				okPools = false
			}
			pools = append(pools, p)
		}
		if okPools {
			fmt.Fprintf(&b, "\tif !reproduced && !%s.HasPrefix(oracle, \"not executable\") {\n\t\ttried := 0\n", g.imp("strings", "strings"))
			ind := "\t\t"
			for i, p := range pools {
				fmt.Fprintf(&b, "%sfor _, %s := range %s {\n", ind, argNames[i], p)
				ind += "\t"
			}
			fmt.Fprintf(&b, "%sif found != \"\" || tried > 200000 {\n%s\tcontinue\n%s}\n%stried++\n", ind, ind, ind, ind)
			fmt.Fprintf(&b, "%sfunc() {\n%s\tdefer func() { recover() }()\n%s\t%s%s\n", ind, ind, ind, assign, call)
			var fm, shown []string
			for _, an := range argNames {
				fm = append(fm, "%#v")
				shown = append(shown, an)
			}
			fmt.Fprintf(&b, "%s\tif !%s {\n%s\t\tfound = fmt.Sprintf(%q, %s)\n", ind, oracleCall, ind, strings.Join(fm, ", "), strings.Join(shown, ", "))
			if len(resNames) > 0 {
				var fr []string
				for range resNames {
					fr = append(fr, "%#v")
				}
				fmt.Fprintf(&b, "%s\t\tlast = fmt.Sprintf(%q, %s)\n", ind, strings.Join(fr, ", "), strings.Join(resNames, ", "))
			}
			fmt.Fprintf(&b, "%s\t}\n%s}()\n", ind, ind)
			for range pools {
				ind = ind[:len(ind)-1]
				fmt.Fprintf(&b, "%s}\n", ind)
			}
			fmt.Fprintf(&b, "\t\tif found != \"\" {\n\t\t\treproduced = true\n\t\t\toracle = \"clause violated (input found by the small-scope sweep, not the solver's model)\"\n\t\t}\n\t\tout[\"swept\"] = tried\n\t}\n")
		}
	}
	fmt.Fprintf(&b, "\tout[\"oracle\"], out[\"found_input\"] = oracle, found\n")
	fmt.Fprintf(&b, "\tout[\"reproduced\"], out[\"panicked\"], out[\"real_output\"] = reproduced, panicked, last\n")
	fmt.Fprintf(&b, "\tjs, _ := json.Marshal(out)\n\tfmt.Printf(\"VERIF-REPLAY %%s\\n\", js)\n}\n")
	var hdr strings.Builder
	fmt.Fprintf(&hdr, "package %s\n\nimport (\n", c.pkg.Name)
	var ips []string
	for p := range g.imports {
		ips = append(ips, p)
	}
	sort.Strings(ips)
	for _, p := range ips {
		fmt.Fprintf(&hdr, "\t%s %q\n", g.imports[p], p)
	}
	fmt.Fprintf(&hdr, ")\n\n")
	rf.TestSource = hdr.String() + b.String()
	rf.TestPkgDir = c.pkg.Dir
	return rf
}

func isProtoMessage(t types.Type) bool {
	ms := types.NewMethodSet(t)
	for i := 0; i < ms.Len(); i++ {
		if ms.At(i).Obj().Name() == "ProtoReflect" {
			return true
		}
	}
	return false
}

func uniq(xs []string) []string {
	seen := map[string]bool{}
	var out []string
	for _, x := range xs {
		if !seen[x] {
			seen[x] = true
			out = append(out, x)
		}
	}
	return out
}

// smallBounds: prefer small, printable models.
func smallBounds(c *FnCtx, term string, t types.Type) []string {
	switch u := t.Underlying().(type) {
	case *types.Slice:
		return []string{"(<= (slen " + term + ") 3)"}
	case *types.Basic:
		if u.Info()&types.IsString != 0 {
			return []string{"(<= (str.len " + term + ") 4)"}
		}
	case *types.Pointer:
		if s, ok := u.Elem().Underlying().(*types.Struct); ok {
			var out []string
			for i := 0; i < s.NumFields(); i++ {
				f := s.Field(i)
				if sl, ok := f.Type().Underlying().(*types.Slice); ok {
					_ = sl
					base, _ := c.fieldArr(u.Elem(), f.Name())
					hn := c.heapName(base, 0)
					if c.declSet[hn] {
						out = append(out, "(<= (slen "+sel(hn, term)+") 3)")
					}
				}
			}
			return out
		}
	}
	return nil
}

// mapDomainBounds restricts entry map domains to a small finite candidate set (small-scope model search).
func mapDomainBounds(c *FnCtx, smt string) []string {
	var out []string
	strs := map[string]bool{`"k1"`: true, `"k2"`: true, `"k3"`: true}
	for _, m := range regexp.MustCompile(`"(?:[^"]|"")*"`).FindAllString(smt, -1) {
		if len(strs) < 12 {
			strs[m] = true
		}
	}
	var sl []string
	for k := range strs {
		sl = append(sl, k)
	}
	sort.Strings(sl)
	for base, srt := range c.heapSort {
		if !strings.HasPrefix(base, "MD!") {
			continue
		}
		hn := c.heapName(base, 0)
		if !c.declSet[hn] {
			continue
		}
		var alts []string
		switch {
		case strings.HasPrefix(srt, "(Array Int (Array String "):
			for _, s := range sl {
				alts = append(alts, "(= k "+s+")")
			}
			out = append(out, "(forall ((r Int) (k String)) (=> (select (select "+hn+" r) k) (or "+strings.Join(alts, " ")+")))")
		case strings.HasPrefix(srt, "(Array Int (Array Int "):
			out = append(out, "(forall ((r Int) (k Int)) (=> (select (select "+hn+" r) k) (and (<= (- 2) k) (<= k 3))))")
		}
	}
	return out
}

// runReplay executes the synthesised test against the real code through an overlay.
func runReplay(rf *ReplayFile, repoDir, workDir string) {
	if rf.TestSource == "" {
		return
	}
	os.MkdirAll(workDir, 0o755)
	src := filepath.Join(workDir, sanitizeFile(rf.Obligation)+"_replay_test.go")
	os.WriteFile(src, []byte(rf.TestSource), 0o644)
	ov := filepath.Join(workDir, sanitizeFile(rf.Obligation)+"_overlay.json")
	target := filepath.Join(rf.TestPkgDir, "zz_verif_replay_test.go")
	repl := map[string]string{target: src}
	if rf.SynthSource != "" {
		ss := filepath.Join(workDir, sanitizeFile(rf.Obligation)+"_spec_test.go")
		os.WriteFile(ss, []byte(rf.SynthSource), 0o644)
		repl[filepath.Join(rf.TestPkgDir, "zz_verif_spec_test.go")] = ss
	}
	// the package's own test files are not needed for the replay (and some import packages whose sources are
	// absent in this sandbox): hide them
	if others, err := filepath.Glob(filepath.Join(rf.TestPkgDir, "*_test.go")); err == nil {
		for _, f := range others {
			repl[f] = ""
		}
	}
	script := fmt.Sprintf("ulimit -v 8000000; cd %q && go test -overlay %q -vet=off -v -count=1 -timeout 60s -run '^TestVerifReplay$' . 2>&1", rf.TestPkgDir, ov)
	if _, err := os.Stat(rf.TestPkgDir); err != nil && strings.Contains(rf.TestPkgDir, "/"+genDirName+"/") {
		// generated package: it exists only through the overlay, so the test binary is built with -c and run from the work directory
		for v, real := range genOverlayFiles {
			repl[v] = real
		}
		root := rf.TestPkgDir[:strings.Index(rf.TestPkgDir, "/"+genDirName+"/")]
		rel := "./" + strings.TrimPrefix(rf.TestPkgDir, root+"/")
		bin := filepath.Join(workDir, "replay.test")
		script = fmt.Sprintf("ulimit -v 8000000; cd %q && go test -overlay %q -vet=off -c -o %q %q 2>&1 && cd %q && %q -test.v -test.count=1 -test.timeout 60s -test.run '^TestVerifReplay$' 2>&1; rm -f %q",
			root, ov, bin, rel, workDir, bin, bin)
		if len(genOverlayFiles) == 0 {
			rf.Note = "generated code is not available for the replay (re-run the check)"
			return
		}
	}
	js, _ := json.Marshal(map[string]any{"Replace": repl})
	os.WriteFile(ov, js, 0o644)
	cmd := exec.Command("bash", "-c", script)
	cmd.Env = append(os.Environ(), "GOFLAGS=-mod=mod", "GOPROXY=off", "GOSUMDB=off", "GOTOOLCHAIN=local")
	done := make(chan struct{})
	var out []byte
	go func() { out, _ = cmd.CombinedOutput(); close(done) }()
	select {
	case <-done:
	case <-time.After(180 * time.Second):
		cmd.Process.Kill()
		rf.Note = "replay timed out"
		return
	}
	rf.RealOutput = string(out)
	if len(rf.RealOutput) > 4000 {
		rf.RealOutput = rf.RealOutput[:4000]
	}
	for _, l := range strings.Split(string(out), "\n") {
		if strings.HasPrefix(l, "VERIF-REPLAY ") {
			var m map[string]any
			if json.Unmarshal([]byte(strings.TrimPrefix(l, "VERIF-REPLAY ")), &m) == nil {
				if b, ok := m["reproduced"].(bool); ok {
					rf.Reproduced = b
				}
				if s, ok := m["oracle"].(string); ok {
					rf.Oracle = s
				}
				if s, ok := m["found_input"].(string); ok && s != "" {
					rf.FoundInput = s
					rf.Inputs = []string{"found by the small-scope sweep against the executable clause: " + s}
				}
				rf.RealOutput = strings.TrimPrefix(l, "VERIF-REPLAY ")
				if rf.Reproduced {
					rf.Note = "the real function, run on the solver's counterexample, reproduces the violation"
				} else {
					rf.Note = "the real function did not reproduce the solver's counterexample (abstraction or intermediate-state model)"
				}
				return
			}
		}
	}
	if rf.Note == "" {
		rf.Note = "replay test did not complete (build error or crash); see real_output"
	}
}
