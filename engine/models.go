package main

import (
	"go/ast"
	"go/constant"
	"go/types"
)

type libModel func(c *FnCtx, x *ast.CallExpr, fobj *types.Func, args []string, st *State) []string

var libModels map[string]libModel

func init() {
	libModels = map[string]libModel{
		"fmt.Errorf":                               newError,
		"errors.New":                               newError,
		"google.golang.org/grpc/status.Errorf":     newError,
		"google.golang.org/grpc/status.Error":      newError,
		"strings.HasPrefix":                        func(c *FnCtx, x *ast.CallExpr, f *types.Func, a []string, st *State) []string { return []string{"(str.prefixof " + a[1] + " " + a[0] + ")"} },
		"strings.HasSuffix":                        func(c *FnCtx, x *ast.CallExpr, f *types.Func, a []string, st *State) []string { return []string{"(str.suffixof " + a[1] + " " + a[0] + ")"} },
		"strings.Contains":                         func(c *FnCtx, x *ast.CallExpr, f *types.Func, a []string, st *State) []string { return []string{"(str.contains " + a[0] + " " + a[1] + ")"} },
		"math.Trunc": func(c *FnCtx, x *ast.CallExpr, f *types.Func, a []string, st *State) []string {
			t := "(fp.roundToIntegral RTZ " + a[0] + ")"
			if c.specMode == 0 {
				n := c.fresh("trunc", sF64)
				st.addDef(eq(n, t))
				fin := and(not("(fp.isNaN "+a[0]+")"), not("(fp.isInfinite "+a[0]+")"))
				st.addDef(implies(fin, and("(is_int (fp.to_real "+n+"))", eq("(fp.eq "+n+" "+a[0]+")", "(is_int (fp.to_real "+a[0]+"))"))))
				return []string{n}
			}
			return []string{t}
		},
		"unicode/utf8.RuneCountInString": func(c *FnCtx, x *ast.CallExpr, f *types.Func, a []string, st *State) []string {
			r := "(runeCount " + a[0] + ")"
			if c.specMode == 0 {
				c.blenFacts(st, a[0])
				st.addFact(and("(<= 0 "+r+")", "(<= "+r+" (blen "+a[0]+"))", "(= (= "+r+" 0) (= "+a[0]+" \"\"))"))
			}
			return []string{r}
		},
	}
}

// newError: a fresh, non-nil error value.
func newError(c *FnCtx, x *ast.CallExpr, fobj *types.Func, args []string, st *State) []string {
	if c.specMode > 0 {
		panic(unsupported{"error construction in specification"})
	}
	r := c.newRef(st, "err")
	return []string{"(ibox " + c.tt.tidName("error!dynamic") + " 0 \"\" false fpzero " + r + " nilSlice)"}
}

// bufferCall models bytes.Buffer / strings.Builder methods on a local accumulator variable.
func (c *FnCtx) bufferCall(x *ast.CallExpr, fobj *types.Func, recvExpr ast.Expr, st *State) []string {
	if _, isPtr := c.typeOf(recvExpr).Underlying().(*types.Pointer); isPtr {
		c.fail(x.Pos(), "buffer accessed through a pointer is not modelled")
	}
	cur := c.eval(recvExpr, st)
	set := func(v string) {
		if c.specMode > 0 {
			c.fail(x.Pos(), "buffer mutation in specification")
		}
		c.assignTo(recvExpr, c.name(st, "buf", v, sString), st)
	}
	runeStr := func(a ast.Expr) string {
		if tv, ok := c.info().Types[a]; ok && tv.Value != nil {
			if n, ok2 := constant.Int64Val(constant.ToInt(tv.Value)); ok2 && n >= 0 && n < 128 {
				return strLit(string(rune(n)))
			}
		}
		v := c.eval(a, st)
		c.declareFun("strOfRune", []string{sInt}, sString)
		// SMT-LIB strings hold code points up to 0x2FFFF: exact for those, uninterpreted above
		r := "(ite (and (<= 0 " + v + ") (< " + v + " 196608) (not (and (>= " + v + " 55296) (<= " + v + " 57343)))) (str.from_code " + v + ") (strOfRune " + v + "))"
		if c.specMode == 0 {
			r = c.name(st, "rs", r, sString)
			st.addFact(and("(>= (str.len "+r+") 1)"))
		}
		return r
	}
	switch fobj.Name() {
	case "WriteRune":
		set("(str.++ " + cur + " " + runeStr(x.Args[0]) + ")")
		return []string{c.fresh("n", sInt), "inil"}
	case "WriteByte":
		set("(str.++ " + cur + " " + runeStr(x.Args[0]) + ")")
		return []string{"inil"}
	case "WriteString":
		s := c.eval(x.Args[0], st)
		set("(str.++ " + cur + " " + s + ")")
		return []string{"(blen " + s + ")", "inil"}
	case "String":
		return []string{cur}
	case "Len":
		c.blenFacts(st, cur)
		return []string{"(blen " + cur + ")"}
	case "Reset":
		set(`""`)
		return nil
	}
	c.fail(x.Pos(), "unsupported buffer method %s", fobj.Name())
	return nil
}
