package main

import (
	"go/ast"
	"go/types"
)

type libModel func(c *FnCtx, x *ast.CallExpr, fobj *types.Func, args []string, st *State) []string

var libModels map[string]libModel

func init() {
	libModels = map[string]libModel{
		"fmt.Errorf":                               newError,
		"errors.New":                               newError,
		"google.golang.org/grpc/status.Errorf":     newError,
		"google.golang.org/grpc/status.Error":      newError,
		"strings.HasPrefix":                        func(c *FnCtx, x *ast.CallExpr, f *types.Func, a []string, st *State) []string { return []string{"(str.prefixof " + a[1] + " " + a[0] + ")"} },
		"strings.HasSuffix":                        func(c *FnCtx, x *ast.CallExpr, f *types.Func, a []string, st *State) []string { return []string{"(str.suffixof " + a[1] + " " + a[0] + ")"} },
		"strings.Contains":                         func(c *FnCtx, x *ast.CallExpr, f *types.Func, a []string, st *State) []string { return []string{"(str.contains " + a[0] + " " + a[1] + ")"} },
		"unicode/utf8.RuneCountInString": func(c *FnCtx, x *ast.CallExpr, f *types.Func, a []string, st *State) []string {
			r := "(runeCount " + a[0] + ")"
			if c.specMode == 0 {
				c.blenFacts(st, a[0])
				st.addFact(and("(<= 0 "+r+")", "(<= "+r+" (blen "+a[0]+"))", "(= (= "+r+" 0) (= "+a[0]+" \"\"))"))
			}
			return []string{r}
		},
	}
}

// newError: a fresh, non-nil error value.
func newError(c *FnCtx, x *ast.CallExpr, fobj *types.Func, args []string, st *State) []string {
	if c.specMode > 0 {
		panic(unsupported{"error construction in specification"})
	}
	r := c.newRef(st, "err")
	return []string{"(ibox " + c.tt.tidName("error!dynamic") + " 0 \"\" false fpzero " + r + " nilSlice)"}
}
