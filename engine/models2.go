package main

import (
	"go/ast"
	"go/constant"
	"go/types"
	"strings"
)

// Models of the FNV-32 hash object (hash/fnv): the hash state is the string written so far, the digest an
// uninterpreted function fnv32 : String -> [0, 2^32) of that string. Trusted: hash/fnv is a deterministic
// function of the bytes written.
func init() {
	libModels["hash/fnv.New32"] = fnvNew
	libModels["hash/fnv.New32a"] = fnvNew
	libModels["io.(Writer).Write"] = hashWrite
	libModels["hash.(Hash32).Sum32"] = hashSum32
	libModels["fmt.Sprintf"] = sprintfModel
}

const hashStateBase = "HS!fnv"
const hashStateSort = "(Array Int String)"

func fnvNew(c *FnCtx, x *ast.CallExpr, fobj *types.Func, args []string, st *State) []string {
	if c.specMode > 0 {
		panic(unsupported{"fnv.New32 in specification"})
	}
	r := c.newRef(st, "hash")
	c.setH(st, hashStateBase, hashStateSort, store(c.h(st, hashStateBase, hashStateSort), r, `""`))
	return []string{"(ibox " + c.tt.tidName("hash!fnv32") + " 0 \"\" false fpzero " + r + " nilSlice)"}
}

func hashWrite(c *FnCtx, x *ast.CallExpr, fobj *types.Func, args []string, st *State) []string {
	// args: receiver (Iface), p []byte
	h, p := args[0], args[1]
	isHash := and("((_ is ibox) "+h+")", eq("(ityp "+h+")", c.tt.tidName("hash!fnv32")))
	bt := types.Typ[types.Uint8]
	an, asrt := c.elemsArr(bt)
	c.declareFun("strOfBytes", []string{"(Array Int Int)", sInt, sInt}, sString)
	written := "(strOfBytes " + sel(c.h(st, an, asrt), "(sbase "+p+")") + " (soff " + p + ") (slen " + p + "))"
	HS := c.h(st, hashStateBase, hashStateSort)
	ref := "(iref " + h + ")"
	c.setH(st, hashStateBase, hashStateSort, ite(isHash, store(HS, ref, "(str.++ "+sel(HS, ref)+" "+written+")"), HS))
	errv := c.fresh("werr", sIface)
	st.addFact(implies(isHash, eq(errv, "inil")))
	n := c.fresh("wn", sInt)
	st.addFact(implies(isHash, eq(n, "(slen "+p+")")))
	return []string{n, errv}
}

func hashSum32(c *FnCtx, x *ast.CallExpr, fobj *types.Func, args []string, st *State) []string {
	h := args[0]
	c.declareFun("fnv32", []string{sString}, sInt)
	v := "(fnv32 " + sel(c.h(st, hashStateBase, hashStateSort), "(iref "+h+")") + ")"
	if c.specMode == 0 {
		v = c.name(st, "sum32", v, sInt)
		st.addFact(and("(<= 0 "+v+")", "(<= "+v+" 4294967295)"))
	}
	return []string{v}
}

// sprintfModel handles formats made of literal text and %s / %v applied to string-typed arguments;
// anything else is an uninterpreted function of the (boxed) arguments.
func sprintfModel(c *FnCtx, x *ast.CallExpr, fobj *types.Func, args []string, st *State) []string {
	if len(x.Args) == 2 && !x.Ellipsis.IsValid() {
		// single verb applied to one scalar: modelled through the conversion laws of reflectmodel.go.
		// args[1] is the packed variadic slice; the boxed operand is re-evaluated from the source expression
		if _, isID := unparen(x.Args[1]).(*ast.Ident); !isID {
			// only for side-effect-free operands (re-evaluated below)
		} else if at := c.info().TypeOf(x.Args[1]); at != nil {
			if b, isBasic := at.Underlying().(*types.Basic); !(isBasic && b.Info()&types.IsString != 0) {
				boxed := c.convertTo(c.eval(x.Args[1], st), at, types.NewInterfaceType(nil, nil), st)
				if r, ok := sprintfScalar(c, x, []string{args[0], boxed}, st); ok {
					return []string{r}
				}
			}
		}
	}
	tv, ok := c.info().Types[x.Args[0]]
	if ok && tv.Value != nil && tv.Value.Kind() == constant.String && !x.Ellipsis.IsValid() {
		format := constant.StringVal(tv.Value)
		var parts []string
		argi := 1
		okAll := true
		var lit strings.Builder
		for i := 0; i < len(format); i++ {
			ch := format[i]
			if ch != '%' {
				lit.WriteByte(ch)
				continue
			}
			if i+1 >= len(format) {
				okAll = false
				break
			}
			i++
			switch format[i] {
			case '%':
				lit.WriteByte('%')
			case 's', 'v':
				if argi >= len(x.Args) {
					okAll = false
					break
				}
				at := c.info().TypeOf(x.Args[argi])
				b, isBasic := at.Underlying().(*types.Basic)
				if !isBasic || b.Info()&types.IsString == 0 {
					okAll = false
					break
				}
				if lit.Len() > 0 {
					parts = append(parts, strLit(lit.String()))
					lit.Reset()
				}
				parts = append(parts, c.eval(x.Args[argi], st))
				argi++
			default:
				okAll = false
			}
			if !okAll {
				break
			}
		}
		if okAll && argi == len(x.Args) {
			if lit.Len() > 0 {
				parts = append(parts, strLit(lit.String()))
			}
			switch len(parts) {
			case 0:
				return []string{`""`}
			case 1:
				return []string{parts[0]}
			}
			return []string{"(str.++ " + strings.Join(parts, " ") + ")"}
		}
	}
	c.abstractions["pure-uf:fmt.Sprintf"] = true
	return c.pureUF("lib!fmt.Sprintf", fobj, args, st, false)
}
