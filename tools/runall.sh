#!/bin/bash
# runall.sh [tier]: runs every claimed check on the current tree, one after the other; prints one summary line per check.
cd "$(dirname "$0")/.."
tier=${1:-quick}
for p in $(python3 -c "import json;print(' '.join(c['property_id'] for c in json.load(open('MANIFEST.json'))['checks']))"); do
  /usr/bin/time -f "$p wall %es exit %x" ./check $p $tier > /tmp/runall.$p.log 2>&1
  tail -1 /tmp/runall.$p.log; grep "^VIOLATION\|^MACHINERY\|^KNOWN-FINDING" /tmp/runall.$p.log | cut -c1-200 | head -5; grep "^C[0-9]* \[" /tmp/runall.$p.log
done
