#!/bin/bash
# seedcheck.sh <prop> <patch> : applies a seeded change to /repo, runs the property's quick check, undoes the change.
cd /repo || exit 2
if [ -n "$(git status --porcelain --untracked-files=no)" ]; then echo "repo not clean"; exit 2; fi
git apply "$2" || { echo "patch does not apply to /repo"; exit 2; }
cd /verif && VERIF_EVIDENCE_DIR=/verif/work/seed-evidence ./check "$1" quick > /tmp/seedcheck.$1.log 2>&1; code=$?
cd /repo && git checkout -q -- .
echo "check $1 with $(basename $(dirname $2))/$(basename $2): exit $code; $(grep -c '^VIOLATION' /tmp/seedcheck.$1.log) violation line(s), $(grep '^VIOLATION' /tmp/seedcheck.$1.log | grep -vc no-failing-input-found) with failing input"
grep "FAIL\|MACHINERY" /tmp/seedcheck.$1.log | cut -c1-160 | head -6
exit $code
