#!/usr/bin/env python3
"""Regenerates /verif/MANIFEST.json from the tables below (run after changing what is claimed)."""
import json, subprocess, os

HERE = os.path.dirname(os.path.dirname(os.path.abspath(__file__)))

TECH = ("contract-based deductive verification: requires/ensures/invariant/modifies contracts in "
        "//@ comments (guarded files zz_contracts_verif.go), weakest-precondition style VC generation over the "
        "typed Go AST by /verif/engine (govc), obligations discharged by z3 5.1 / z3 4.8.12 / cvc5 1.0.3; "
        "counterexample models replayed on the real code with go test -overlay")

NOTE = ("Trusted: the govc VC generator and its Go semantics (DESIGN.md 2.3), the SMT solvers, `int` arithmetic "
        "treated as mathematical, amd64 float->int conversion, partial correctness only; assumed library contracts "
        "and opaque-call abstractions are listed per run in the evidence file.")

# id -> (level text, design ref, extra note)
CLAIMED = {
    "C09": ("Proof, for every pair of well-formed paths (all lengths, all key maps, every map iteration order), that "
            "comparePathElem returns the set relation of the two elements' denotations and ComparePaths the set relation of the "
            "two paths' denotations (postconditions are the set-semantics spec functions elemRel/pathRel, not the code's own "
            "description), plus the lemma that swapping the arguments flips Subset/Superset. Loops carry inductive invariants over a "
            "ghost 'visited' set, so the result is independent of Go's map order.", "5 (C09)", ""),
}

CLAIMED["C06"] = ("Proof, for every int64/uint64 value, byte length and rune count and every list of integer range parts, that "
    "ValidateIntRestrictions / ValidateUintRestrictions / ValidateBinaryRestrictions accept exactly the values inside the union of the range (length) "
    "parts (everything when unrestricted), and that ValidateStringRestrictions rejects every string whose character count is outside the length space; "
    "the goyang Number comparison functions they depend on (Less, Equal, Trunc, frac, pow10, FromInt, FromUint) are verified from the module-cache "
    "source, not assumed. fixYangRegexp is proved to wrap every non-empty pattern not starting with '^' in ^( ... )$ whatever characters it contains "
    "(rune-level loop invariant), and SanitizedPattern to prefer POSIX patterns and otherwise map fixYangRegexp over the patterns in order. "
    "Not covered: regular-expression semantics itself, decimal64 ranges, and that every sanitised pattern is applied (the pattern loop is only proved "
    "not to accept a string outside the length space).", "5 (C06)", "Known finding: patterns starting with '^' are not grouped (KNOWN_FINDINGS.txt).")

CLAIMED["C18"] = ("Proof in floating-point theory, for every float64 (NaN, infinities, denormals, non-integral and out-of-range values "
    "included) and every YANG kind, that checkJSONFloat64Range / yangFloatIntToGoType accept a JSON number for an 8/16/32-bit integer leaf exactly "
    "when it denotes an integer of that type's value space, and then store exactly that integer with the leaf's Go type; and that "
    "gNMIToYANGTypeMatches is true exactly for the (YANG kind, TypedValue oneof) pairs of the gNMI scalar mapping, JSON tolerance adding only "
    "non-negative int_val for unsigned kinds. Not covered: int64/uint64/decimal64 string parsing (strconv), base64, enumeration names, unions and "
    "the reflection plumbing that carries the decoded value into the struct.", "5 (C18)", "")
CLAIMED["C28"] = ("Proof that fieldTag / protoTagForEntry return, whenever they return without error, a legal protobuf field number (1..2^29-1, outside "
    "19000-19999) and that the number equals a specification function of the schema path alone (FNV-32 of the path masked to 29 bits, re-hashed "
    "with '_' appended while reserved), FNV-32 being an uninterpreted function of the bytes written. The recursive call is used by contract; "
    "termination is not proved. Not covered: distinctness of field numbers/names within a message (a 29-bit hash of sibling paths can collide and the "
    "generator has no collision handling - not provable, see DESIGN.md), enum numbering, proto3 syntax of the emitted files.", "5 (C28)", "")

CLAIMED["C11"] = ("Proof of frame (modifies) contracts for the non-reflective functions on the read-only / encoding call paths: every store site is shown to "
    "target an object allocated in the call or a location listed in `modifies`, and every callee's modifies clause to be covered. Covered: "
    "gNMIToYANGTypeMatches w.r.t. the TypedValue given to SetNode/UnmarshalSetRequest, marshalStructOrOrderedList (EncodeTypedValue) w.r.t. the caller's "
    "RFC7951JSONConfig, and the util path functions (ComparePaths, PathMatches*, JoinPaths, PopGNMIPath, ...) w.r.t. their path arguments. Not covered: "
    "mutation through reflection inside GetNode, Validate, EmitJSON, TogNMINotifications, DeepCopy, MergeStructs, Unmarshal - the tree walkers are "
    "opaque calls for this verifier and are assumed not to write through the listed arguments.", "5 (C11)", "")
CLAIMED["C20"] = ("Proof that the own panic sites (index, slice bounds, nil dereference, nil-map write, unchecked type assertion, interface comparison of "
    "uncomparable dynamic types, explicit panic) of the listed decoding entry functions are unreachable for every input: ytypes.unmarshalList (any JSON "
    "value), gnmidiff writeUpdate / protoLeafToJSON / populateUpdateNoSchema (any TypedValue whose oneof wrapper is not a typed nil) and the recursive JSON "
    "flattening flattenOCJSONAux (any decoded JSON value, non-nil result map; strings.Split returning at least one part is an assumed library law), ygot.StringToPath, "
    "StringToStructuredPath, StringToStringSlicePath, extractKV, addKey and util.SplitPath / PathStringToElements (any string), the rendering side "
    "ygot.PathToString / PathToStrings / PathToSchemaPath / elementsToString / elemToString that gnmidiff applies to every path of a request (any path, nil included, "
    "whose Elem list has no nil entry - a nil entry cannot come off the wire and does panic), and ytypes.UnmarshalSetRequest with "
    "deletePaths / replacePaths / updatePaths (any SetRequest without nil entries in Replace/Update, any options: under best-effort unmarshalling every "
    "error they hand to the unchecked type assertion in UnmarshalSetRequest is a non-nil *ComplianceErrors). Not covered: panics raised "
    "inside reflect, protobuf and encoding/json calls and inside the reflection walkers (opaque calls), stack exhaustion.", "5 (C20)", "")

CLAIMED["C13"] = ("Proof of the gNMI Set orchestration over an abstract tree: DeleteNode and SetNode (reflection walkers, not verified) are assumed only "
    "to append one Del(path) resp. Set(path, val) record to a ghost sequence; UnmarshalSetRequest is then proved, for every request (all lengths of "
    "Delete/Replace/Update, nil or non-nil prefix, every option), to issue on success exactly: Del(join(prefix,p)) for each delete in order, then "
    "Del(join(prefix,u.Path)), Set(same path, u.Val) for each replace in order, then Set(join(prefix,u.Path), u.Val) for each update in order, and never to "
    "drop or reorder operations already issued (loop invariants over the trace; joinPrefixToUpdate proved to return a fresh Update with the joined path "
    "and the same Val; util.JoinPaths used by its verified contract). Not covered: that DeleteNode/SetNode implement delete and merge on the tree "
    "(C10/C12, reflection), JSON payload merge semantics, UnmarshalNotifications (atomic handling) and which operations are skipped under "
    "best-effort unmarshalling.", "5 (C13)", "")

CLAIMED["C22"] = ("Proof of the comparison performed by gnmidiff.DiffSetRequest over abstract intents: the intent of a SetRequest (deleted paths, "
    "leaf updates) is an uninterpreted function of (request, schema) produced by minimalSetRequestIntent (schema walk and JSON flattening: assumed contract, "
    "fresh maps); DiffSetRequest is then proved, for all intents of any size and every map iteration order, to partition exactly: CommonDeletes = A.D & B.D, "
    "MissingDeletes = A.D \\ B.D, ExtraDeletes = B.D \\ A.D; every update path of A or B lands in exactly one of Common (both, DeepEqual, A's value), "
    "Mismatched (both, not DeepEqual, values in A/B order), Missing (only A) and Extra (only B); an error is returned iff one of the intents cannot be built. "
    "Lemmas over the postcondition: diff(a,a) has nothing missing, extra or mismatched; swapping arguments swaps missing/extra and A/B. reflect.DeepEqual is "
    "assumed reflexive and symmetric. One normalisation kernel is also proved: protoLeafToJSON represents a leaf given as a TypedValue the way encoding/json "
    "decodes its RFC 7951 form (string, bool, float64 for (u)int, a non-nil []interface{} of the same length for a leaf-list). Not covered otherwise: that "
    "requests with the same intent (JSON vs leaf updates, prefix splits, reordering) normalise to equal intents - minimalSetRequestIntent, flattenOCJSON and "
    "the path-string functions are outside this check.", "5 (C22)", "")

GENNOTE = ("The verified text is the output of the working tree's generator, produced on every run (go build ./generator, run on the schema corpus: "
    "/verif/schemas/vlists.yang with every supported key type and the repository's ctestschema (compressed paths) in the quick tier, plus utestschema "
    "(uncompressed) in the thorough tier) "
    "and loaded through a file overlay; the contracts are templates in /repo/gogen/zz_contracts_verif.go instantiated once per generated list, with the key "
    "leaves of each list taken from the YANG source (goyang), not from the helpers under proof. The quantifier over schemas is sampled by the corpus; the "
    "quantifiers over key values, map contents and operation pre-states (every state satisfying the representation invariant, hence every history of calls) "
    "are closed by proof. decimal64-keyed lists are skipped (Go map semantics for NaN / signed zero are not modelled).")

CLAIMED["C15"] = ("Proof on generated instances that every generated ordered map is an insertion-ordered unique-key map: with the representation invariant wf "
    "(keys pairwise distinct, dom(valueMap) == set(keys), no nil element) assumed before a call, each of init, Len, Get, Keys, Values, Delete, Append, AppendNew and "
    "the parent's GetOrCreate<List>Map / AppendNew<List> / Append<List> / Get<List> / Delete<List> is proved to re-establish wf and to have exactly the stated effect on the "
    "whole abstract view (key sequence and key->element map): Append/AppendNew reject a nil receiver, nil element, nil key leaf or duplicate key without changing "
    "the view and otherwise append the key at the end; Delete removes the key keeping the relative order of the others (the trailing `return false` is proved "
    "unreachable); Get is the map lookup; Keys and Values return freshly allocated slices equal to the key sequence resp. the elements in key order (so "
    "modifying them cannot change the map). Since wf is an inductive invariant of all mutators, the statement holds after every sequence of calls. "
    "Not covered: order preservation through JSON, gNMI and DeepCopy (reflection walkers, yreflect).", "5 (C15)", GENNOTE)

CLAIMED["C34"] = ("Proof on generated instances that the keyed-list helpers behave as a map from key tuples to entries: with the invariant wf (no nil entry, every "
    "entry's key leaves equal its map key) assumed before a call, New<List>, Append<List>, GetOrCreate<List>, GetOrCreate<List>Map, Get<List>, Delete<List>, "
    "Rename<List> and the entry's ΛListKeyMap are proved to re-establish wf and to change the map exactly as stated: New and Append reject a duplicate key "
    "(Append also a nil pointer-typed key leaf) without changing the map; GetOrCreate returns the existing entry unchanged or creates one whose key leaves are "
    "the arguments, never reaching its panic; Get never creates or changes anything; Delete removes exactly the key; Rename fails without change when the new "
    "key exists or the old one does not, and otherwise moves the entry and updates its key leaves; ΛListKeyMap returns exactly the key leaves under their YANG "
    "names. Known finding (recorded, not repaired): Append accepts an unset enumeration / identityref / union key.", "5 (C34)",
    GENNOTE + " Known finding: see KNOWN_FINDINGS.txt (Append with an unset non-scalar key).")

CLAIMED["C16"] = ("Proof of the key string encode/decode pairing for non-enumeration keys under a mini-model of reflect (a Value is the interface value it wraps; Kind, "
    "Size, Implements are functions of the dynamic type id) and assumed strconv/fmt laws (itoa injective with atoi(itoa(x)) == x; ParseInt/ParseUint accept "
    "itoa(x) exactly when x fits the bit size): ygot.KeyValueAsString succeeds for every value of every signed and unsigned integer kind (int64 included) with "
    "the decimal rendering itoa(value), returns a string value unchanged, booleans as true/false and float64 as a string that parses back to the same float; "
    "ytypes.StringToType parses at the bit size of the target Go type, succeeds exactly when strconv does, and returns a value of the requested type holding "
    "atoi(s), the string itself, or the boolean; ytypes.stringToKeyType (the schema-driven decoder SetNode uses to create an entry from a path) parses the "
    "integer YANG kinds with ParseInt resp. ParseUint at the kind's bit size (util.YangIntTypeBits proved) and returns the kind's Go type, through leafrefs too "
    "(util.FindLeafRefSchema assumed). Not covered: enumeration, identityref, union, binary, decimal64 keys (enumFieldToString / castToEnumValue / unionPtrValue / "
    "stringToUnionType are uninterpreted), key comparison in retrieveNodeList, entry creation in SetNode (reflection walkers).", "5 (C16)", "")

CLAIMED["C19"] = ("Proof of the RFC 7951 scalar rule in ygot.writeIETFScalarJSON for every dynamic type: values of kind int64 / uint64 are returned as the decimal string "
    "itoa(value); float64 (decimal64 leaves) as a string in the RFC 7950 decimal lexical form - no exponent - that parses back to the same float64 (assumed "
    "law of strconv.FormatFloat(f, 'f', -1, 64); fmt's %v has no such law, which is how the exponent defect was found); every other value is returned "
    "unchanged, so 8/16/32-bit integers and booleans stay JSON numbers / booleans. Module-name prefixes: prependmodsJSON is proved to return, for every "
    "data-tree path of a field and every element of it, the empty string exactly when the element's (rewritten) module equals its parent's - the enclosing "
    "struct's module for the first element, the previous element's otherwise - and the rewritten module name otherwise (nested loop invariants; "
    "rewriteModName proved; structTagToLibModules uninterpreted). Not covered: which kind reaches writeIETFScalarJSON and which parent module reaches "
    "prependmodsJSON (jsonValue / structJSON / jsonSlice - reflection walkers), base64 of binary, [null] for empty, enumeration names (C17), encoding/json itself.",
    "5 (C19)", "")

CLAIMED["C05"] = ("Proof of the conflict-detection kernels of MergeStructs (the merge itself, a reflection walker, is not covered): orderedMapKeysMergeable returns an error "
    "when either key list cannot be read, accepts whenever the two ordered lists' key lists are disjoint, and accepts only if they are disjoint or every source key "
    "occurs in the destination (loop invariant over the in-order scan; keysDisjoint and srcKeysIsSubset proved equal to the set predicates, with map-range ghost "
    "sets); uniqueSlices returns true exactly when no element of a DeepEquals an element of b (nested loop invariants; reflect.Value.Len/Index uninterpreted); "
    "fieldOverwriteEnabled / mergeEmptyMapsEnabled are true exactly when an option of that type is present. Not covered: the same-order (subsequence) "
    "requirement itself (needs induction), leaf conflict detection, the set-union result, input non-mutation and commutativity (copyStruct and friends).",
    "5 (C05)", "")

CLAIMED["C07"] = ("Proof of the element-count rule of tree validation: validateListAttr reports no error exactly when the size of the value (ordered map Len, or length "
    "of the Go slice / map) is at least min-elements and, when max-elements is non-zero, at most max-elements, and reports an error for a nil schema, missing list "
    "attributes or a value of another kind; validateLeafList is proved to report every leaf-list whose element count is outside its bounds (it had no such "
    "check: repaired); the error-accumulation helpers util.AppendErr / AppendErrs never lose an error. The per-element check validateLeaf, reflect.Value.Len and "
    "GoOrderedMap.Len are uninterpreted. Key agreement: checkBasicKeyValue and checkStructKeyValues are proved to report no error exactly when the map key "
    "(every member of a key struct) equals the entry's key leaf - the value the key field points to, the field itself for non-pointer leaves or a nil pointer "
    "(struct field access through reflect is uninterpreted). Not covered: enumeration / identity membership, union member fitting, leaf-list uniqueness, "
    "choice/case exclusivity, leafrefs and the dispatch that reaches these kernels - reflection walkers; ranges, lengths and patterns are C06.", "5 (C07)", "")

CLAIMED["C24"] = ("Proof of the type agreement between the two directions of protomap for ywrapper fields: every entry parseField adds to the path map for a field "
    "whose message is a UintValue / StringValue / BytesValue wrapper has dynamic type uint64 / string / []byte, and makeWrapper accepts exactly such a value for a "
    "field of that wrapper type (no error, wrapper produced) and reports 'not a wrapper' only for other message types; listKeyAsProtoValue accepts for a uint64 "
    "key field exactly the strings strconv.ParseUint accepts at 64 bits and every string for a string key field. protobuf reflection (descriptors, "
    "NewField, Message, Interface) is uninterpreted. Not covered: lists, leaf-lists, unions, enums, list entry creation, path annotation look-up and message "
    "equality of the full round trip.", "5 (C24)", "")

CLAIMED["C23"] = ("Proof of the classification performed by gnmidiff.DiffSetRequestToNotifications over abstract intents: the SetRequest's intent S (deleted paths, "
    "leaf updates) is the uninterpreted function of (request, schema) also used for C22; the leaves carried by the notifications are collected by populateUpdate "
    "(schema walk / JSON flattening: assumed deterministic, so the collected map N is a function of the ghost sequence of (path, value) pairs fed to it, empty for "
    "the empty sequence). For all S and N of any size, every map iteration order, and the trie library used by its assumed contract (a set of keys with "
    "prefix search), the result is proved to be exactly: Common = S leaves present in N with DeepEqual values, Mismatched = present with unequal values (values in "
    "S/N order), Missing = S leaves absent from N, Extra = leaves of N that S does not write and that lie under a path S deletes ('<deleted path>/' is a prefix). "
    "Hence N == S.updates gives nothing missing, extra or mismatched, and removing / changing one leaf or adding one under a deleted subtree moves exactly that "
    "leaf. Not covered: that populateUpdate and minimalSetRequestIntent compute the intents correctly, notifications carrying deletes (rejected).", "5 (C23)", "")

CLAIMED["C03"] = ("Proof of the comparison kernel of ygot.diff (Diff / DiffWithAtomic) at the level of the leaf maps: the leaf maps of the two trees (path string -> "
    "(value, gNMI path)) are the uninterpreted results of findSetLeaves / toStringPathMap (tree walk; assumed to build one record per path); appendUpdate and "
    "orderedMapNotif (encoding, ordered-list walk) are assumed only to record what they were given in ghost sets. For all leaf maps of any size, every map "
    "iteration order and every option list, diff is proved to emit an update for exactly the leaves of the modified tree whose value is not DeepEqual to the "
    "original's, plus - unless IgnoreAdditions is given - exactly the leaves absent from the original; to put into the delete list exactly the paths of the "
    "leaves set in the original and absent from the modified tree (every such leaf deleted, nothing else in the list); consequently Diff(a, a) emits nothing. "
    "Not covered: that the leaf maps equal the trees' leaf sets (findSetLeaves), that applying the notifications to a gives b (UnmarshalNotifications, "
    "SetNode - reflection), TypedValue encoding, ordered-list order under DiffWithAtomic.", "5 (C03)", "")

CLAIMED["C17"] = ("Proof over the generated code and the two lookup kernels. (1) Tables: the working tree's generator is run on an enumeration corpus (leaf, typedef and "
    "union-member enumerations with explicit and negative values, identities derived across several modules; four enum-naming flag combinations; plus the key-type "
    "corpus, and the repository test schemas in the thorough tier); the generated ΛEnum literal is evaluated by the verifier and, for every generated "
    "enumeration / identity type E, E.ΛMap() is proved to contain E's table, in which value 0 (UNSET) is not defined, every name is non-empty and free of ':' "
    "(as are module names) and no two values share a name. (2) Rendering: enumFieldToString is proved, for every GoEnum value of int64 kind and every table, to "
    "return no output and no error for 0, an error and no output for a value the table does not define (or a type missing from the map), and otherwise exactly "
    "the table's name, prefixed 'module:' iff requested and the definition names a module. (3) Parsing: castToEnumValue is proved to return a value of the "
    "(element) type whose table name equals the given string after StripModulePrefix on both sides, and (nil, nil) exactly when no value does (map-range "
    "invariant); StripModulePrefix is proved equal to its specification through a strings.Split model, and the lemma that for ':'-free names comparison after "
    "stripping is name equality - with or without a module prefix - is proved (cvc5, string theory), which with (1) makes parse(render(v)) = v. Assumed: the "
    "interface call v.ΛMap() and the reflective MethodByName(\"ΛMap\").Call reach the generated method of v's type (dynamic dispatch is uninterpreted), "
    "reflect.Type.Name. Not covered: which values reach these kernels from the marshal/unmarshal walkers, enum members of unions, schema-side enum "
    "restrictions. One recorded finding (same-named identities from two modules under one base) and one repaired defect (YANG value -1 generated as UNSET).", "5 (C17)", "")

CLAIMED["C29"] = ("Proof over the generated path-struct API and the resolution kernel. (1) Accessors: the working tree's generator is run on the compressed "
    "repository test schema and on an OpenConfig-style schema (nested lists, a three-key list with string / enumeration / union keys, a user-ordered list), "
    "producing GoStructs (gogen) and path structs (ypathgen) into one package; for every child accessor of every path struct (87 in the quick corpus, "
    "including every wildcard variant) it is proved that the node it returns is new, has the receiver as parent, carries as relative schema path exactly the "
    "first alternative of the `path` tag of the GoStruct field it is named after - the data-tree path gogen wrote independently - and as keys exactly the "
    "list's key leaves by YANG name, each mapped to the accessor's parameter of that key or to the wildcard \"*\" when the accessor has none; "
    "ygot.NewNodePath is proved to store what it is given. (2) Resolution: (*NodePath).relPath is proved to return one PathElem per name of the relative "
    "schema path, in order, with the keys attached to the last element only, each rendered by KeyValueAsString (so \"*\" stays \"*\"), and errors exactly "
    "when some key cannot be rendered (then with a nil-free, non-empty error list, otherwise a nil one); ModifyKey updates exactly one key; ygot.ResolvePath is "
    "proved to return, for a parent chain without errors, exactly the concatenation from the root down of what each node's relPath() contributes (the "
    "expected sequence is defined by recursion over the chain through axioms; parent() is an uninterpreted function of the node, and the interface method "
    "relPath is used through an assumed contract over abstract per-node contributions - that every PathStruct's relPath is (*NodePath).relPath, which is "
    "proved, is the trusted link), and no path when any node reports an error. Not covered: the target / custom data of the root, leaf path structs' own "
    "methods, builder-style key methods, uncompressed schemas (the generator rejects them), schemas outside the corpus.", "5 (C29)", "")

CLAIMED["C33"] = ("Proof over the generated code: the working tree's generator is run on the key-type corpus and the compressed repository schema (thorough: also "
    "the uncompressed one), and for every generated struct's PopulateDefaults (46 in the quick corpus) it is proved that (a) every leaf that has a YANG default - "
    "taken from the schema through goyang, including typedef defaults - and was unset holds that default afterwards (string, integer, boolean leaves by value; "
    "enumeration / identityref leaves through the generated value table), and (b) every leaf that was set keeps its pointer and value, and every leaf without a "
    "default is unchanged whether set or not. Children, list entries and ordered-list entries are populated by their own PopulateDefaults, called by contract "
    "(same template); the frame is type-level (`modifies subtree(t)`: fields of the struct's type and of the struct types below it). ygot.BuildEmptyTree is "
    "a trusted library model (only nil struct-pointer fields of the subtree change). (c) Visiting: a ghost history set per struct type records the objects for which PopulateDefaults has returned, and every "
    "PopulateDefaults is proved to have handed every non-nil child container and every entry of every map-based child list to the child's "
    "PopulateDefaults (loop invariants over the map-range ghost set; the corpus includes the key-type schema generated with ordered-by-user lists as plain "
    "maps), the history sets only growing. Not covered: that the entries of ordered maps (ordered-by user lists in their default representation) are "
    "visited - and the well-formedness of those maps, which their Values() method requires, is assumed at that call; defaults of union, decimal64, binary "
    "and leaf-list leaves "
    "(listed per struct in the evidence), the second sentence of the property (a tree that validated still validates - ytypes.Validate is a reflection walker), "
    "schemas outside the corpus.", "5 (C33)", "")

NA = {
    "C01": "RFC7951 JSON round-trip is a relation between two reflection walkers (structJSON/jsonValue vs unmarshalStruct/unmarshalList) over arbitrary generated struct types; no function-level contract within this verifier's reach carries it (no reflect memory model). Scalar kernels are decided under C18/C19 where claimed.",
    "C02": "gNMI notification round-trip lives in the reflection walkers (findUpdatedLeaves, retrieveNode); not expressible as contracts the VC generator can check.",
    "C04": "Ownership/aliasing property of copyStruct/copySliceField expressed entirely through reflect.New/Append/Set; needs a reflect heap model that does not exist here.",
    "C10": "SetNode/GetNode are reflect walkers mutating through reflect.Value.Set; frame and get-after-set laws are not expressible over the opaque-call abstraction.",
    "C12": "DeleteNode is the same retrieveNode walker (reflect); not within reach.",
    "C14": "PruneEmptyBranches is a reflect walker; the suspected failure is a reflect-internal flag no contract here can see.",
    "C21": "Concurrency: contract-based deductive verification as built here has no thread or schedule model.",
    "C25": "Generator determinism is a two-run hyperproperty over the whole generator and map iteration order, not a contract on one call.",
    "C26": "Whole-pipeline property of the generator plus the Go compiler; no function-level statement.",
    "C27": "Embedded-schema fidelity is a property of the generator pipeline and of serialisation round trips; no function-level statement.",
    "C30": "Leafref validation is a reflect walker over schema and data trees (util.ForEachField); the first-order pieces do not state any clause of the property.",
    "C31": "Unmarshal merge semantics live in unmarshalStruct/unmarshalList walkers over reflect values.",
}

# properties not yet built (moved to CLAIMED as the contracts are completed)
PENDING = {
    "C03": "contracts not completed yet (diff comparison kernel)",
    "C05": "contracts not completed yet (uniqueSlices / orderedMapKeysMergeable kernels)",
    "C07": "contracts not completed yet (validateListAttr and dispatch kernels)",
    "C08": "Not decided: the round-trip law PathToString / StringToStructuredPath needs string-theory loop invariants over the escaping of '/', '[', ']', '=' and backslash that were not built, and no bounded stand-in was built either; only the absence of panics in the parsing functions (SplitPath, extractKV, elemToString, StringToStructuredPath, StringToStringSlicePath) is proved, under C20. Reading and probes of the real code (DESIGN.md section 5, hypotheses) indicate that key values ending in a backslash or containing ']/' do not round-trip.",
    "C15": "contracts not completed yet (generated ordered maps)",
    "C16": "contracts not completed yet (key string encode/decode pairing)",
    "C17": "contracts not completed yet (enum lookup kernels)",
    "C19": "contracts not completed yet (scalar encoding kernels)",
    "C22": "contracts not completed yet (intent diff partition)",
    "C23": "contracts not completed yet (set-to-notifications classification)",
    "C24": "contracts not completed yet (protomap wrapper pairing)",
    "C29": "contracts not completed yet (path struct resolution kernel)",
    "C32": "PruneConfigFalse is a util.ForEachField reflection walk that clears fields through reflect.Value.Set; the config-true / config-false decision per node (util.IsConfig on the schema entry) is first-order, but which fields are cleared and that config-true values are unchanged are statements about reflective stores, for which this verifier has no memory model. Not decided.",
    "C33": "contracts not completed yet (PopulateDefaults frame)",
    "C34": "contracts not completed yet (generated keyed-list helpers)",
}


def main():
    root_commit = subprocess.run(["git", "-C", "/repo", "rev-list", "--max-parents=0", "--abbrev-commit", "HEAD"], capture_output=True, text=True).stdout.strip()
    hooks = subprocess.run(["git", "-C", "/repo", "log", "--format=%h %s"], capture_output=True, text=True).stdout.splitlines()
    # hook commits: every commit that touches files and only guarded contract files (zz_contracts_verif.go)
    hook_commits = []
    for l in hooks:
        h = l.split()[0]
        files = [f for f in subprocess.run(["git", "-C", "/repo", "show", "--format=", "--name-only", h], capture_output=True, text=True).stdout.split() if f]
        if files and all(f.endswith("zz_contracts_verif.go") for f in files) and h != root_commit:
            hook_commits.append(h)
    checks = []
    for pid in sorted(CLAIMED):
        text, ref, extra = CLAIMED[pid]
        level = "proof"
        checks.append({
            "property_id": pid,
            "quick_cmd": f"./check {pid} quick",
            "thorough_cmd": f"./check {pid} thorough",
            "evidence_file": f"/verif/evidence/{pid}.json",
            "replay_cmd_template": "./check --replay {path}",
            "engine": "govc",
            "level_claimed": {"category": level, "text": text, "design_ref": "DESIGN.md section " + ref},
            "level_note": NOTE + (" " + extra if extra else ""),
            "technique": TECH,
        })
    na = []
    for pid in sorted(set(NA) | set(PENDING)):
        if pid in CLAIMED:
            continue
        na.append({"property_id": pid, "reason": NA.get(pid) or PENDING[pid]})
    m = {
        "version": 1,
        "setup_cmd": "cd /verif/engine && GOFLAGS=-mod=mod GOPROXY=off GOSUMDB=off GOTOOLCHAIN=local go build -o /verif/bin/govc .",
        "hooks": {
            "guard": "verif",
            "enable": "go build tag `verif` (-tags=verif); the guarded files /repo/<pkg>/zz_contracts_verif.go are comment-only contract files read by /verif/engine",
            "baseline_off_cmd": "cd /repo && go test -mod=mod -json -vet=off -count=1 -timeout 25m ./...",
            "source_commits": hook_commits,
            "add_only": True,
        },
        "engines": [{
            "name": "govc",
            "path": "/verif/engine",
            "serves_properties": sorted(CLAIMED),
            "kind_free_text": "self-written verification-condition generator for Go (go/ast + go/types) with contract language, SMT back ends z3/cvc5, model replay",
        }],
        "checks": checks,
        "not_applicable": na,
        "notes": "Contracts live in /repo/<pkg>/zz_contracts_verif.go (build tag verif, comment-only). Exit codes: 0 accepted, 1 VIOLATION, 2 machinery error (never a VIOLATION line). KNOWN_FINDINGS.txt lists recorded findings and repaired defects.",
    }
    with open(os.path.join(HERE, "MANIFEST.json"), "w") as f:
        json.dump(m, f, indent=1)
        f.write("\n")
    print("claimed:", sorted(CLAIMED), "n/a:", len(na))


if __name__ == "__main__":
    main()
