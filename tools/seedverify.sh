#!/bin/bash
# seedverify.sh <worktree> <seeddir> <demo-pkg-dir-rel> <test pkgs...>
# Confirms a seeded change: applies cleanly, builds, existing tests pass with it, demo fails with it and passes without.
export GOFLAGS=-mod=mod GOPROXY=off GOSUMDB=off GOTOOLCHAIN=local
wt=$1; sd=$2; dp=$3; shift 3
cd "$wt" || exit 2
git checkout -q -- . && git clean -fdq
git apply "$sd/patch.diff" || { echo "SEED-BAD patch does not apply"; exit 1; }
go build "$@" >/dev/null 2>&1 || { echo "SEED-BAD build fails"; git checkout -q -- .; exit 1; }
if ! go test -vet=off -count=1 "$@" >/tmp/seedverify.log 2>&1; then echo "SEED-BAD existing tests fail with patch"; tail -5 /tmp/seedverify.log; git checkout -q -- .; git clean -fdq; exit 1; fi
demo=$(ls "$sd"/demo*_test.go 2>/dev/null | head -1)
cp "$demo" "$dp/zz_seed_demo_test.go"
tn=$(grep -o 'func TestSeed[A-Za-z0-9_]*' "$demo" | head -1 | sed 's/func //')
if go test -vet=off -count=1 -run "^$tn\$" "./$dp" >/tmp/seedverify.log 2>&1; then echo "SEED-BAD demo passes WITH patch"; rm -f "$dp/zz_seed_demo_test.go"; git checkout -q -- .; exit 1; fi
git checkout -q -- .
if ! go test -vet=off -count=1 -run "^$tn\$" "./$dp" >/tmp/seedverify.log 2>&1; then echo "SEED-BAD demo fails WITHOUT patch"; tail -5 /tmp/seedverify.log; rm -f "$dp/zz_seed_demo_test.go"; exit 1; fi
rm -f "$dp/zz_seed_demo_test.go"; git clean -fdq
echo "SEED-OK $sd ($tn)"
