#!/bin/bash
# seedverify2.sh <seed-id> [test pkgs...]
# Confirms a seeded change kept under /verif/seeded/<id>/ in a fresh scratch worktree of /repo (removed afterwards):
# the patch applies, the touched packages build, their existing tests pass with it, the demonstration test fails
# with it and passes without it. The demo's package directory is read from its "// place in: <dir>/" comment.
export GOFLAGS=-mod=mod GOPROXY=off GOSUMDB=off GOTOOLCHAIN=local
id=$1; shift
sd=/verif/seeded/$id
wt=$(mktemp -d /tmp/seedverify.XXXXXX)
trap 'git -C /repo worktree remove --force "$wt" >/dev/null 2>&1; rm -rf "$wt"' EXIT
git -C /repo worktree add -q --detach "$wt" HEAD || exit 2
cd "$wt" || exit 2
git apply "$sd/patch.diff" || { echo "SEED-BAD $id patch does not apply"; exit 1; }
pkgs="$@"
if [ -z "$pkgs" ]; then
  pkgs=$(grep '^+++ b/' "$sd/patch.diff" | sed 's#^+++ b/##; s#/[^/]*$##' | sort -u | sed 's#^#./#')
fi
go build $pkgs >/dev/null 2>&1 || { echo "SEED-BAD $id build fails"; exit 1; }
if ! go test -vet=off -count=1 $pkgs >"$wt/.sv.log" 2>&1; then echo "SEED-BAD $id existing tests fail with patch"; grep -v '^ok' "$wt/.sv.log" | tail -8; exit 1; fi
demo=$(ls "$sd"/demo*_test.go 2>/dev/null | head -1)
dp=$(grep -o 'place in: *[A-Za-z0-9_./-]*' "$demo" | head -1 | sed 's/place in: *//; s#/$##')
[ -n "$dp" ] || { echo "SEED-BAD $id demo has no 'place in:' comment"; exit 1; }
cp "$demo" "$dp/zz_seed_demo_test.go"
tn=$(grep -o 'func Test[A-Za-z0-9_]*' "$demo" | head -1 | sed 's/func //')
if go test -vet=off -count=1 -run "^$tn\$" "./$dp" >"$wt/.sv.log" 2>&1; then echo "SEED-BAD $id demo passes WITH patch"; exit 1; fi
if grep -q "build failed\|setup failed" "$wt/.sv.log"; then echo "SEED-BAD $id demo does not build"; tail -8 "$wt/.sv.log"; exit 1; fi
git apply -R "$sd/patch.diff"
if ! go test -vet=off -count=1 -run "^$tn\$" "./$dp" >"$wt/.sv.log" 2>&1; then echo "SEED-BAD $id demo fails WITHOUT patch"; tail -8 "$wt/.sv.log"; exit 1; fi
echo "SEED-OK $id ($tn in $dp; tests: $pkgs)"
