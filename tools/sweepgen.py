#!/usr/bin/env python3
"""sweepgen.py <repo-copy> <pkgdir> [name-regexp]
Appends thin safety-only contracts (property SWEEP) for every function of the package that has no contract yet to
<repo-copy>/<pkgdir>/zz_contracts_verif.go. Exploration aid (zero-annotation no-panic sweep): failures are candidates to
triage, never reported as violations of a listed property."""
import re, sys, os, glob
repo, pkg = sys.argv[1], sys.argv[2]
pat = re.compile(sys.argv[3]) if len(sys.argv) > 3 else None
cf = os.path.join(repo, pkg, 'zz_contracts_verif.go')
have = set()
if os.path.exists(cf):
    for l in open(cf):
        m = re.match(r'//@ func (.+)$', l.strip())
        if m: have.add(m.group(1).strip())
else:
    name = None
    for f in glob.glob(os.path.join(repo, pkg, '*.go')):
        for l in open(f):
            m = re.match(r'package (\w+)', l)
            if m: name = m.group(1); break
        if name: break
    open(cf, 'w').write('//go:build verif\n\npackage %s\n' % name.replace('_test', ''))
out = ['', '//@ property SWEEP']
n = 0
for f in sorted(glob.glob(os.path.join(repo, pkg, '*.go'))):
    if f.endswith('_test.go') or f.endswith('zz_contracts_verif.go') or f.endswith('.pb.go'): continue
    for l in open(f):
        m = re.match(r'func (?:\(\s*\w*\s*(\*?)(\w+)\)\s*)?(\w+)\(', l)
        if not m: continue
        star, recv, fn = m.groups()
        key = fn if not recv else '(%s%s).%s' % (star, recv, fn)
        if key in have or (pat and not pat.search(key)): continue
        if fn in ('init', 'main'): continue
        have.add(key)
        out += ['//@ func ' + key, '//@ safety SWEEP', '//@ frame none']
        n += 1
open(cf, 'a').write('\n'.join(out) + '\n')
print(n, 'sweep contracts added to', cf)
